"""Handshake properties C15, C16, C17 (engine E3 + pure cases)."""
import collections
from .base import Prop
from .. import ws, gen_hs, monitors_hs
from ..gen_hs import hx

class HsProp(Prop):
    proto_class_only = True       # which ProtocolError variant rejects a bad handshake is not part of C15-C17
    engine_desc = ('E3 accept_hdr_with_config / client_with_config / MidHandshake::handshake (resumed after every Interrupted) vs '
                   'Handshake.server_handshake / client_handshake; E1 create_response, generate_request, into_client_request, derive_accept_key')
    trusted_extra = ['HTTP head parsing (httparse + http crate validation) is an ORACLE of the model: its per-buffer outcomes are taken from the real parser on every run',
                     'Sha1.v/Base64 executable specs written from FIPS 180-4 / RFC 4648, compared with derive_accept_key on every run']
    assumptions = ['parser hypotheses P1-P3 (determinism, sequential scan, <=124 headers) - tested on every prefix of generated heads (TP cases)']
    debug_build_too = True
    impl_only_kinds = ('TP',)

    def corpus(self):
        import os
        from .. import build
        p = os.path.join(build.ROOT, 'corpus', 'hs.txt')
        return [l.strip() for l in open(p) if l.strip() and not l.startswith('#')] if os.path.exists(p) else []

    def nontrivial_key(self, case_line, trace):
        if trace.startswith('bad-case'):
            return None
        return hash(trace.split(' | ')[0].split(' ')[0] + case_line.split(' ', 2)[2][:4000])

    def distribution(self, cases):
        kinds = collections.Counter(c.split(' ')[0] for c in cases)
        return {'case_kinds': dict(kinds)}

def seg_variants(rng, data, quick):
    """segmentations of a head: whole, every line boundary, random pieces, drip of the first/last line"""
    out = [[data]]
    lines = data.split(b'\r\n')
    # cut at each line boundary (2 pieces)
    pos = 0
    for l in lines[:-1]:
        pos += len(l) + 2
        if 0 < pos < len(data):
            out.append([data[:pos], data[pos:]])
    for k in (2, 3, 4, 8, 40):
        if not quick or k in (3, 8):
            out.append(gen_hs.segment(rng, data, k))
    # every byte of the first line / last 6 bytes
    first = len(lines[0]) + 2
    for c in (range(1, first) if not quick else rng.sample(range(1, first), min(4, first - 1))):
        out.append([data[:c], data[c:]])
    for c in range(max(1, len(data) - 6), len(data)):
        out.append([data[:c], data[c:]])
    return out

class C15(HsProp):
    id = 'C15'
    rule = ('server requests: every subset/ordering of the decisive headers, near-miss values, method/version variants, random casing/extra headers/duplicates, '
            'trailing bytes; each through create_response (SD) and through the full handshake (HS) under segmentation, callbacks, partial writes; distinct by (outcome, case), non-trivial = not bad-case')
    level_text = 'server decision logic, response serialiser and machine modelled and proved; HTTP parsing is an oracle (hypotheses) tested against the real parser'
    level_note = 'Trusted: Coq kernel, Handshake.v/Sha1.v, parser oracle hypotheses, correspondence generators'
    def generate(self, tier, rng):
        quick = tier == 'quick'
        out = list(self.corpus())
        variants = gen_hs.server_request_variants(rng, 150 if quick else 6000)
        k = 0
        for hs, method, ver in variants:
            out.append('SD sd%d %s %s %s' % (k, hx(method), {b'HTTP/1.0': '10', b'HTTP/1.1': '11'}[ver], gen_hs.hdrs_field(hs)))
            req = gen_hs.request_bytes(hs, method=method, version=ver)
            # independent choices (indexing all three by k made most combinations, and most patterns, unreachable)
            cb = rng.choice(gen_hs.CALLBACKS) if rng.random() < 0.35 else 'none'
            wr = rng.choice(gen_hs.WPATS) if rng.random() < 0.4 else []
            fl = rng.choice(gen_hs.FPATS) if rng.random() < 0.3 else []
            frame = ws.encode_frame(1, b'hello', mask=b'\x01\x02\x03\x04')
            segs = gen_hs.segment(rng, req, rng.choice([1, 1, 2, 5]))
            rds = gen_hs.rds_of(segs, 0.2, rng) + ['d:' + hx(frame)]
            out.append(gen_hs.hs_case('hs%d' % k, cb, ['r', 'wt:6869', 'f'], rds, wr, fl))
            if k % 7 == 0:
                # trailing bytes in the same chunk as the end of the head
                out.append(gen_hs.hs_case('hj%d' % k, 'none', ['r'], gen_hs.rds_of(gen_hs.segment(rng, req + frame, rng.choice([1, 2]))), [], []))
            if k % 11 == 0:
                for ti, tail_ in enumerate((b'\r\n', b'\n', b' ', b'\x00', b'x', b'\r\n\r\n', b'GET / HTTP/1.1\r\n\r\n')):
                    out.append(gen_hs.hs_case('ht%d_%d' % (k, ti), 'none', ['r'], ['d:' + hx(req + tail_)], [], []))
            if k % 3 == 1:
                m_ = gen_hs.mutate_head(rng, req)
                out.append(gen_hs.hs_case('hm%d' % k, cb, ['r'], ['d:' + hx(m_), 'd:' + hx(frame)], [], []))
            k += 1
        # a slow but honest client: scores of WouldBlocks before and inside an ordinary valid request
        reqv = gen_hs.request_bytes(gen_hs.REQUIRED)
        for nwb in (66, 80, 200):
            out.append(gen_hs.hs_case('hwb%d' % k, 'none', ['r'], ['e:wb'] * nwb + ['d:' + hx(reqv)], [], [])); k += 1
            out.append(gen_hs.hs_case('hwb%d' % k, 'none', ['r'], ['e:wb'] * (nwb // 2) + ['d:' + hx(reqv[:40])] + ['e:wb'] * (nwb // 2) + ['d:' + hx(reqv[40:])], [], [])); k += 1
        # keys: accept computation over many key strings
        for i in range(60 if quick else 600):
            n = rng.randint(0, 40)
            key = bytes(rng.choice(b'ABCDEFGHIJKLMNOPQRSTUVWXYZabcdefghijklmnopqrstuvwxyz0123456789+/=') for _ in range(n))
            out.append('AK ak%d %s' % (i, hx(key)))
        return out
    def monitor(self, case_line, trace, mline):
        kind = case_line.split(' ')[0]
        if kind == 'HS':
            return monitors_hs.mon_c15(case_line, trace) or monitors_hs.mon_no_panic(trace)
        if kind == 'AK':
            key = ws.unhx(case_line.split(' ')[2])
            if trace != hx(monitors_hs.accept_for(key)):
                return 'accept-key: derive_accept_key(%r) = %s' % (key, trace)
        if kind == 'SD':
            f = case_line.split(' ')
            hs = [(ws.unhx(nv.split('=')[0]), ws.unhx(nv.split('=')[1])) for nv in f[4].split(';')] if f[4] != '-' else []
            v = monitors_hs.values
            method_ok = ws.unhx(f[2]) == b'GET'; ver_ok = f[3] == '11'
            up, co, ve, ke = v(hs, b'Upgrade'), v(hs, b'Connection'), v(hs, b'Sec-WebSocket-Version'), v(hs, b'Sec-WebSocket-Key')
            once = (method_ok and ver_ok and len(up) == 1 and up[0].lower() == b'websocket' and len(co) == 1 and
                    any(t.lower() == b'upgrade' for t in monitors_hs.tokens(co[0])) and ve == [b'13'] and len(ke) == 1)
            some = (method_ok and ver_ok and any(x.lower() == b'websocket' for x in up) and
                    any(any(t.lower() == b'upgrade' for t in monitors_hs.tokens(x)) for x in co) and any(x == b'13' for x in ve) and len(ke) > 0)
            if trace.startswith('ok:') and not some:
                return 'accepted-invalid: create_response accepted an invalid request'
            if once and not trace.startswith('ok:') and not trace.startswith('bad-case'):
                return 'rejected-valid: create_response refused a valid request: %s' % trace
        return None

class C16(HsProp):
    id = 'C16'
    props_files = ['C16', 'C16b']
    rule = ('client: URIs (userinfo with 0/1/2+ @, ports, IPv6, paths, bad schemes), subprotocol lists, extra headers; responses with every element missing/altered and '
            'every single-character change of the accept value (28 positions x 4 letters); head/frame boundary at every segmentation; distinct by (outcome, case)')
    level_text = 'request serialiser, Host rule, verify_response and tail hand-over modelled and proved; response/URI parsing are oracles'
    level_note = 'Trusted: Coq kernel, Handshake.v/Sha1.v, parser oracle, correspondence generators; key randomness is a runtime fact (partial)'
    partial = 'key freshness/unpredictability is a property of rand; the theorems hold for every key'
    def generate(self, tier, rng):
        quick = tier == 'quick'
        out = list(self.corpus())
        k = 0
        for uri in gen_hs.URIS:
            out.append('URI u%d %s' % (k, hx(uri)))
            k += 1
        frame1 = ws.encode_frame(1, b'first'); frame2 = ws.encode_frame(2, b'\x00\x01')
        for uri in gen_hs.URIS:
            resp = gen_hs.response_bytes([(b'Upgrade', b'websocket'), (b'Connection', b'Upgrade'), (b'Sec-WebSocket-Accept', gen_hs.ACCEPT_MARK)])
            out.append(gen_hs.hc_case('hu%d' % k, uri, ops=['r', 'r'], rds=['d:' + hx(resp + frame1 + frame2)])); k += 1
        for subs in ([], [b'chat'], [b'chat', b'superchat'], [b' chat ', b'x']):
            variants = gen_hs.server_response_variants(rng, 20 if quick else 1500, subs)
            if quick and subs:
                variants = variants[:40] + rng.sample(variants[40:], 30)
            for hs, status, ver in variants:
                resp = gen_hs.response_bytes(hs, status=status, version=ver)
                data = resp + frame1 + frame2
                segs = gen_hs.segment(rng, data, rng.choice([1, 1, 2, 3, 6]))
                extra = [(b'Origin', b'http://o.example')] if k % 5 == 0 else []
                if k % 4 == 1:
                    out.append(gen_hs.hc_case('hm%d' % k, b'ws://example.com/m', subs, [], ['r'], ['d:' + hx(gen_hs.mutate_head(rng, resp)), 'd:' + hx(frame1)])); k += 1
                out.append(gen_hs.hc_case('hc%d' % k, b'ws://example.com/s?q=%d' % k, subs, extra, ['r', 'r', 'wt:6869', 'f'],
                                          gen_hs.rds_of(segs, 0.2, rng), rng.choice(gen_hs.WPATS) if rng.random() < 0.3 else [],
                                          rng.choice(gen_hs.FPATS) if rng.random() < 0.3 else []))
                k += 1
        # head/frame boundary at every offset around the end of the head
        resp = gen_hs.response_bytes([(b'Upgrade', b'websocket'), (b'Connection', b'Upgrade'), (b'Sec-WebSocket-Accept', gen_hs.ACCEPT_MARK)])
        data = resp + frame1 + frame2
        for cut in range(len(resp) - 8, len(data)):
            out.append(gen_hs.hc_case('hb%d' % k, b'ws://example.com/', ops=['r', 'r'], rds=['d:' + hx(data[:cut]), 'e:wb', 'd:' + hx(data[cut:])])); k += 1
        for cut1 in range(len(resp) - 3, len(resp) + 4):
            for cut2 in range(cut1 + 1, min(len(data), cut1 + 9)):
                out.append(gen_hs.hc_case('hb%d' % k, b'ws://example.com/', ops=['r', 'r'],
                                          rds=['d:' + hx(data[:cut1]), 'd:' + hx(data[cut1:cut2]), 'd:' + hx(data[cut2:])])); k += 1
        # frame bytes arriving with the head while read_buffer_size is smaller than that tail
        for rbs, nbig in ((0, 100), (1, 100), (8, 100), (64, 100), (4096, 300), (0, 300), (4096, 3000), (64, 3000)):
            big = ws.encode_frame(2, bytes(i & 255 for i in range(nbig)))     # with 300+ bytes the leftover is longer than the head itself
            out.append(gen_hs.hc_case('ht%d' % k, b'ws://example.com/', ops=['r', 'r', 'r'],
                                      rds=['d:' + hx(gen_hs.response_bytes([(b'Upgrade', b'websocket'), (b'Connection', b'Upgrade'), (b'Sec-WebSocket-Accept', gen_hs.ACCEPT_MARK)]) + frame1 + big + frame2)], rbs=rbs)); k += 1
        # a valid 101 that carries Content-Length (0 or N): a 101 has no body, so whatever follows the head is WebSocket data
        for cl in (b'0', b'3', b'100'):
            respcl = gen_hs.response_bytes([(b'Upgrade', b'websocket'), (b'Connection', b'Upgrade'), (b'Content-Length', cl), (b'Sec-WebSocket-Accept', gen_hs.ACCEPT_MARK)])
            out.append(gen_hs.hc_case('hcl%d' % k, b'ws://example.com/', ops=['r', 'r'], rds=['d:' + hx(respcl + frame1 + frame2)])); k += 1
            out.append(gen_hs.hc_case('hcl%d' % k, b'ws://example.com/', ops=['r', 'r'], rds=['d:' + hx(respcl), 'd:' + hx(frame1 + frame2)])); k += 1
        # extra headers that clash with the mandatory ones (any case): the URL-derived / generated values must win
        resp0 = gen_hs.response_bytes([(b'Upgrade', b'websocket'), (b'Connection', b'Upgrade'), (b'Sec-WebSocket-Accept', gen_hs.ACCEPT_MARK)])
        for extra in ([(b'Host', b'evil.example')], [(b'sec-websocket-key', b'Zml4ZWRmaXhlZGZpeGVkZg==')], [(b'UPGRADE', b'h2c')],
                      [(b'Connection', b'close')], [(b'Sec-WebSocket-Version', b'8')], [(b'Host', b'a.example'), (b'X-Other', b'1')]):
            out.append(gen_hs.hc_case('hx%d' % k, b'ws://user@example.com:81/p', [], extra, ['r'], ['d:' + hx(resp0 + frame1)])); k += 1
        # ClientRequestBuilder: URL + extra headers (clashing with mandatory ones or not, any case) + subprotocols
        extras = [[], [(b'X-A', b'1')], [(b'Host', b'evil.example')], [(b'sec-websocket-key', b'Zml4ZWQ=')], [(b'ORIGIN', b'http://o')],
                  [(b'Upgrade', b'h2c'), (b'Connection', b'close'), (b'Sec-WebSocket-Version', b'8')], [(b'X-A', b'1'), (b'x-a', b'2'), (b'Origin', b'o')]]
        for uri in gen_hs.URIS:
            for ei, extra in enumerate(extras):
                subs = [[], [b'chat'], [b'chat', b'v2.example']][(k + ei) % 3]
                out.append('CB cb%d %s %s %s' % (k, hx(uri), ','.join(hx(x) for x in subs) if subs else '-', gen_hs.hdrs_field(extra))); k += 1
        # generate_request on hand-built requests (duplicates, missing, extras)
        base = [(b'Host', b'h.example'), (b'Connection', b'Upgrade'), (b'Upgrade', b'websocket'), (b'Sec-WebSocket-Version', b'13'), (b'Sec-WebSocket-Key', b'a2V5a2V5a2V5a2V5a2V5a2==')]
        for i in range(len(base)):
            out.append('GR g%d %s %s' % (k, hx(b'/p'), gen_hs.hdrs_field(base[:i] + base[i + 1:]))); k += 1
            out.append('GR g%d %s %s' % (k, hx(b'/p'), gen_hs.hdrs_field(base + [(base[i][0], b'dup')]))); k += 1
        for extra in ([(b'Origin', b'o')], [(b'Sec-WebSocket-Protocol', b'a, b')], [(b'X-A', b'1')], []):
            hs = list(base) + extra
            rng.shuffle(hs)
            out.append('GR g%d %s %s' % (k, hx(b'/path?x=1'), gen_hs.hdrs_field(hs))); k += 1
        return out
    def project(self, case_line, trace):
        # extra (non-required) header lines of generate_request follow HeaderMap's internal order: compare as a multiset
        if (case_line.startswith('GR ') or case_line.startswith('CB ')) and trace.startswith('ok:'):
            p = trace.split(':')
            lines = bytes.fromhex(p[1]).split(b'\r\n')
            return 'ok:%r:%s' % (lines[:6] + sorted(lines[6:]), p[2])
        return HsProp.project(self, case_line, trace)
    def monitor(self, case_line, trace, mline):
        kind = case_line.split(' ')[0]
        if kind == 'HC':
            return monitors_hs.mon_c16(case_line, trace, mline) or monitors_hs.mon_no_panic(trace)
        if kind == 'CB' and trace.startswith('ok:'):
            f = case_line.split(' ')
            uri = ws.unhx(f[2])
            req = bytes.fromhex(trace.split(':')[1])
            ph = monitors_hs.parse_head(req)
            if ph is None or ph[2] != len(req):
                return 'builder-request-malformed'
            line, hs, _ = ph
            rest = uri.split(b'://', 1)[1] if b'://' in uri else uri
            authority = rest.split(b'/', 1)[0].split(b'?', 1)[0]
            host = authority.rsplit(b'@', 1)[-1]
            v = monitors_hs.values
            for name in (b'Host', b'Connection', b'Upgrade', b'Sec-WebSocket-Version', b'Sec-WebSocket-Key'):
                if len(v(hs, name)) != 1:
                    return 'required-header-count: %s appears %d times in a ClientRequestBuilder request' % (name.decode(), len(v(hs, name)))
            if v(hs, b'Host')[0] != host:
                return 'host-with-credentials: Host %r, URL authority without credentials %r' % (v(hs, b'Host')[0], host)
            if v(hs, b'Connection')[0].lower() != b'upgrade' or v(hs, b'Upgrade')[0].lower() != b'websocket' or v(hs, b'Sec-WebSocket-Version')[0] != b'13':
                return 'required-header-values: user-supplied extra headers changed a mandatory header'
            import base64, binascii
            try:
                raw = base64.b64decode(v(hs, b'Sec-WebSocket-Key')[0], validate=True)
            except (binascii.Error, ValueError):
                return 'key-not-base64'
            if len(raw) != 16:
                return 'key-length: key decodes to %d bytes (user-supplied value used instead of a fresh key?)' % len(raw)
            subs = [] if f[3] == '-' else [bytes.fromhex(x) for x in f[3].split(',')]
            if subs and v(hs, b'Sec-WebSocket-Protocol') != [b', '.join(subs)]:
                return 'subprotocols: header %r for offered %r' % (v(hs, b'Sec-WebSocket-Protocol'), subs)
        if kind == 'URI' and trace.startswith('ok:'):
            uri = ws.unhx(case_line.split(' ')[2])
            rest = uri.split(b'://', 1)[1] if b'://' in uri else uri
            authority = rest.split(b'/', 1)[0].split(b'?', 1)[0]
            host = authority.rsplit(b'@', 1)[-1]
            hs = dict(nv.split('=') for nv in trace.split(':')[2].split(';'))
            if ws.unhx(hs.get(hx(b'host'), '-')) != host:
                return 'host-with-credentials: Host %r for URL %r (authority without credentials: %r)' % (ws.unhx(hs.get(hx(b'host'), '-')), uri, host)
        return None

class C17(HsProp):
    id = 'C17'
    props_files = ['C17', 'C17b']
    rule = ('valid and invalid heads x segmentations (whole, every line boundary, every byte of the first line, last bytes, random 2..40 pieces) x WouldBlock before any read/write/flush '
            'x partial write sizes; valid heads completed exactly by the read that trips a guard (65th small read, the read crossing 64 KiB) and one read earlier; endless/oversized heads (1/127/128/200/4096-byte drip, 125+ headers, no terminator); parser assumptions P1-P3 on every prefix (TP); attack-check arithmetic (AC); ReadBuffer<1|4|8|4096> under random read/advance/observe sequences against a plain FIFO (RB)')
    level_text = 'DoS-guard arithmetic, bounded rounds, write exactness and resumption proved on the machine model for any parser; segmentation invariance under parser hypotheses P1-P2; ReadBuffer (src/buffer.rs) proved to refine the plain FIFO the machine model uses (C17b)'
    level_note = 'Trusted: Coq kernel, Handshake.v, parser hypotheses P1-P3 (tested), correspondence generators'
    def generate(self, tier, rng):
        quick = tier == 'quick'
        out = list(self.corpus())
        k = 0
        good = gen_hs.request_bytes(gen_hs.REQUIRED)
        bad = gen_hs.request_bytes([h for h in gen_hs.REQUIRED if h[0] != b'Upgrade'])
        post = gen_hs.request_bytes(gen_hs.REQUIRED, method=b'POST')
        junk = b'GET / HTTP/1.1\r\nBroken header line\r\n\r\n'
        self.groups = {}
        for gi, head in enumerate([good, bad, post, junk]):
            for segs in seg_variants(rng, head, quick):
                for wbp in ((0.0, 0.5) if not quick else (0.0 if k % 2 else 0.5,)):
                    wr = rng.choice(gen_hs.WPATS) ; fl = rng.choice(gen_hs.FPATS)
                    cid = 'sg%d_%d' % (gi, k)
                    out.append(gen_hs.hs_case(cid, 'none', ['r'], gen_hs.rds_of(segs, wbp, rng), wr, fl)); k += 1
        resp = gen_hs.response_bytes([(b'Upgrade', b'websocket'), (b'Connection', b'Upgrade'), (b'Sec-WebSocket-Accept', gen_hs.ACCEPT_MARK)])
        for segs in seg_variants(rng, resp, quick):
            out.append(gen_hs.hc_case('cg0_%d' % k, b'ws://example.com/', ops=['r'], rds=gen_hs.rds_of(segs, 0.3, rng),
                                      wrs=rng.choice(gen_hs.WPATS), fls=rng.choice(gen_hs.FPATS))); k += 1
        for name, chunks in gen_hs.endless_heads():
            out.append(gen_hs.hs_case('end_%s' % name, 'none', ['r'], gen_hs.rds_of(chunks), [], [])); k += 1
            out.append(gen_hs.hc_case('endc_%s' % name, b'ws://example.com/', ops=['r'], rds=gen_hs.rds_of(chunks))); k += 1
            # the same with WouldBlock interleaved (every read / every 10th / randomly): the guard must count across resumptions
            for period in (1, 10, 40):
                rds = []
                for i, c in enumerate(chunks):
                    if i % period == period - 1: rds.append('e:wb')
                    rds.append('d:' + hx(c))
                out.append(gen_hs.hs_case('endw%d_%s' % (period, name), 'none', ['r'], rds, [], [])); k += 1
                out.append(gen_hs.hc_case('endcw%d_%s' % (period, name), b'ws://example.com/', ops=['r'], rds=rds)); k += 1
        # every transport outcome kind at every read index of the reading stage, both roles
        for gi, (role_, head) in enumerate((('s', good), ('c', resp))):
            segs = gen_hs.segment(rng, head, 4)
            for idx in range(len(segs) + 1):
                for kind in ('eof', 'e:reset', 'e:intr', 'e:other', 'e:ueof', 'e:timedout', 'd:-'):
                    rds = ['d:' + hx(c) for c in segs[:idx]] + [kind] + ['d:' + hx(c) for c in segs[idx:]]
                    if role_ == 's':
                        out.append(gen_hs.hs_case('rk%d' % k, 'none', ['r'], rds, [], [])); k += 1
                    else:
                        out.append(gen_hs.hc_case('rk%d' % k, b'ws://example.com/', ops=['r'], rds=rds)); k += 1
        # the transport offers more than one handshake chunk at once: the library must take at most 4096 bytes per read
        long_ = b'GET /chat HTTP/1.1\r\nX-Long: ' + b'a' * 300000
        for size in (8192, 65536, 300000):
            out.append(gen_hs.hs_case('bigchunk%d' % k, 'none', ['r'], ['d:' + hx(long_[:size])], [], [])); k += 1
            out.append(gen_hs.hc_case('bigchunkc%d' % k, b'ws://example.com/', ops=['r'], rds=['d:' + hx(b'HTTP/1.1 101 X\r\nX-Long: ' + b'a' * size)])); k += 1
        # valid heads of 4096 bytes and more (cookie sized), whole / in full chunks / dripped in 1000-byte pieces
        for total in (4095, 4096, 4097, 8192, 20000):
            head = gen_hs.big_valid_request(total)
            for chunks in ([head], [head[i:i + 4096] for i in range(0, len(head), 4096)], [head[i:i + 1000] for i in range(0, len(head), 1000)]):
                out.append(gen_hs.hs_case('sg9_%d' % k, 'none', ['r'], gen_hs.rds_of(chunks), [], [])); k += 1
        # the end of the head arrives in the same read as MORE bytes than the head is long (a large first frame / a large error body):
        # what follows the head is handed on exactly once, under every cut of the head
        bigf = ws.encode_frame(2, bytes((i * 3) & 255 for i in range(400)))
        r404 = gen_hs.response_bytes([(b'Content-Length', b'600')], status=b'404 Not Found') if 'status' in gen_hs.response_bytes.__code__.co_varnames else None
        for cut in (0, 1, len(resp) // 2, len(resp) - 1):
            rds = (['d:' + hx(resp[:cut])] if cut else []) + ['d:' + hx(resp[cut:] + bigf)]
            out.append(gen_hs.hc_case('cgt%d' % k, b'ws://example.com/', ops=['r', 'r'], rds=rds)); k += 1
            if r404:
                rds = (['d:' + hx(r404[:cut])] if cut else []) + ['d:' + hx(r404[cut:] + b'B' * 600)]
                out.append(gen_hs.hc_case('cgt%d' % k, b'ws://example.com/', ops=['r'], rds=rds)); k += 1
        # many WouldBlocks around an ordinary head: only reads that returned data count as packets of the DoS heuristic
        for nwb in (70, 100, 300):
            for role_ in 'sc':
                head = good if role_ == 's' else resp
                for pat in ('before', 'between'):
                    if pat == 'before':
                        rds = ['e:wb'] * nwb + ['d:' + hx(head)]
                    else:
                        a_, b_ = head[:len(head) // 2], head[len(head) // 2:]
                        rds = ['e:wb'] * (nwb // 2) + ['d:' + hx(a_)] + ['e:wb'] * (nwb // 2) + ['d:' + hx(b_)]
                    if role_ == 's':
                        out.append(gen_hs.hs_case('wbm%d' % k, 'none', ['r'], rds, [], [])); k += 1
                    else:
                        out.append(gen_hs.hc_case('wbm%d' % k, b'ws://example.com/', ops=['r'], rds=rds)); k += 1
        # a read that fills the whole 4096-byte chunk, then WouldBlock, then the rest (and the head ending exactly on a chunk boundary)
        for total in (4096, 8192, 5000, 12288):
            head = gen_hs.big_valid_request(total)
            chunks = [head[i:i + 4096] for i in range(0, len(head), 4096)]
            rds = []
            for c in chunks:
                rds += ['d:' + hx(c), 'e:wb']
            out.append(gen_hs.hs_case('fcw%d' % k, 'none', ['r'], rds, [], [])); k += 1
            out.append(gen_hs.hs_case('fcw%d' % k, 'none', ['r'], rds[:-1], [], [])); k += 1
        # the read that completes a VALID head is also the read that trips a guard (65th small read; the read crossing 64 KiB):
        # the guard is applied to every read, so the outcome must be AttackAttempt, and one read earlier success
        def pieces(data, n):
            base, extra = divmod(len(data), n)
            out_, pos = [], 0
            for i in range(n):
                sz = base + (1 if i < extra else 0)
                out_.append(data[pos:pos + sz]); pos += sz
            return [c for c in out_ if c]
        for n in (63, 64, 65, 66, 70, 100):
            out.append(gen_hs.hs_case('gb%d' % k, 'none', ['r'], gen_hs.rds_of(pieces(good, n)), [], [])); k += 1
            out.append(gen_hs.hc_case('gbc%d' % k, b'ws://example.com/', ops=['r'], rds=gen_hs.rds_of(pieces(resp, n)))); k += 1
        for per in (127, 128, 129):
            head = gen_hs.big_valid_request(65 * per)
            out.append(gen_hs.hs_case('gb%d' % k, 'none', ['r'], gen_hs.rds_of(pieces(head, 65)), [], [])); k += 1
            head = gen_hs.big_valid_request(64 * per)
            out.append(gen_hs.hs_case('gb%d' % k, 'none', ['r'], gen_hs.rds_of(pieces(head, 64)), [], [])); k += 1
        for total in (61440, 65535, 65536, 65537, 66000, 69632):
            head = gen_hs.big_valid_request(total)
            for chunks in ([head], [head[i:i + 4096] for i in range(0, len(head), 4096)], [head[i:i + 4000] for i in range(0, len(head), 4000)]):
                out.append(gen_hs.hs_case('gb%d' % k, 'none', ['r'], gen_hs.rds_of(chunks), [], [])); k += 1
        # mixed-size endless heads: the arithmetic cases below are also run against the real handshake
        ac_lists = []
        for i in range(12 if quick else 120):
            n = rng.randint(60, 140)
            pattern = rng.choice(['bigthen1', 'onesthen128', 'alt', 'rand'])
            if pattern == 'bigthen1': sizes = [rng.choice([200, 1000, 4096])] * rng.randint(3, 10) + [1] * n
            elif pattern == 'onesthen128': sizes = [1] * 64 + [128] * n
            elif pattern == 'alt': sizes = [rng.choice([1, 255])] * 1 + [1, 255] * (n // 2)
            else: sizes = [rng.choice([1, 50, 127, 128, 129, 300]) for _ in range(n)]
            ac_lists.append(sizes)
            pos = 0; chunks = []
            for sz in sizes:
                chunks.append(long_[pos:pos + sz]); pos += sz
            out.append(gen_hs.hs_case('mix%d' % k, 'none', ['r'], gen_hs.rds_of(chunks), [], [])); k += 1
            out.append('AC acm%d %s' % (k, ','.join(map(str, sizes)))); k += 1
        # src/buffer.rs ReadBuffer<CHUNK> directly: reads (at most CHUNK bytes each), advances, observations, into_vec
        for i in range(150 if quick else 3000):
            cs = rng.choice([1, 4, 8, 4096])
            part = bytes(rng.randrange(256) for _ in range(rng.choice([0, 0, 1, 5, 20])))
            nchunks = rng.randint(0, 5)
            rds = []
            for _ in range(nchunks):
                r_ = rng.random()
                if r_ < 0.7: rds.append('d:' + hx(bytes(rng.randrange(256) for _ in range(rng.choice([1, 2, 3, 4, 5, 8, 9, 17, 100])))))
                elif r_ < 0.8: rds.append('e:wb')
                elif r_ < 0.9: rds.append(rng.choice(['e:reset', 'e:intr', 'e:other']))
                else: rds.append('eof')
            ops = []
            for _ in range(rng.randint(1, 14)):
                r_ = rng.random()
                if r_ < 0.4: ops.append('rf')
                elif r_ < 0.65: ops.append('ad:%d' % rng.choice([0, 1, 2, 3, 5, 8, 30]))
                elif r_ < 0.85: ops.append('ch')
                else: ops.append('rm')
            out.append('RB rb%d %d %s %s %s' % (k, cs, hx(part) if part else '-', ','.join(ops), ','.join(rds) if rds else '-')); k += 1
        # parser assumption tests on every prefix
        for tag, head in (('req', good), ('req', junk), ('resp', resp.replace(gen_hs.ACCEPT_MARK, b'x' * 28))):
            step = 1 if not quick else 3
            for i in range(0, len(head) + 1, step):
                out.append('TP tp%d %s %s' % (k, tag, hx(head[:i]))); k += 1
            out.append('TP tp%d %s %s' % (k, tag, hx(head + b'EXTRA'))); k += 1
        # attack-check arithmetic (model) vs the independent simulation
        for i in range(40 if quick else 400):
            n = rng.randint(1, 600)
            base = rng.choice([1, 100, 127, 128, 129, 200, 4096])
            sizes = [max(1, base + rng.randint(-2, 2)) for _ in range(n)]
            out.append('AC ac%d %s' % (k, ','.join(map(str, sizes)))); k += 1
        return out
    impl_only_kinds = ('TP',)
    model_only_kinds = ('AC',)
    def monitor(self, case_line, trace, mline):
        kind = case_line.split(' ')[0]
        if kind == 'RB':
            return monitors_hs.mon_readbuf(case_line, trace)
        if kind in ('HS', 'HC'):
            v = monitors_hs.mon_c17(case_line, trace) or monitors_hs.mon_no_panic(trace)
            if not v and kind == 'HC':
                # "without losing or repeating a byte": what follows the response head is handed to the connection exactly once
                w = monitors_hs.mon_c16(case_line, trace, mline)
                if w and w.startswith('tail-lost'):
                    v = w
            return v
        return None
    def model_monitor(self, case_line, mtrace):
        if case_line.startswith('AC '):
            sizes = [int(x) for x in case_line.split(' ')[2].split(',')]
            t = monitors_hs.attack_sim(sizes)
            exp = 'pass:%d' % len(sizes) if t is None else 'attack:%d' % t
            if mtrace != exp:
                return 'attack-arith: model says %s, simulation %s' % (mtrace, exp)
        return None
    def group_monitor(self, cases, traces):
        """same head => same outcome for every segmentation that does not trip the guard; parser P1-P3"""
        groups = collections.defaultdict(list)
        for cid, line in cases.items():
            if cid.startswith('sg') or cid.startswith('cg'):
                groups[cid.split('_')[0]].append(cid)
        for g, ids in groups.items():
            outs = collections.Counter()
            for cid in ids:
                o, evs, ops = monitors_hs.split_trace(traces[cid])
                if monitors_hs.hard_transport(evs) or o in ('err:attack', 'blocked') or o.startswith('panic'):
                    continue
                first_read = ops[0].res if ops else ''
                outs[(o, first_read)] += 1
            if len(outs) > 1:
                return ('segmentation-dependent: handshakes over the same head ended differently across segmentations: %r' % dict(outs), ids[0])
        # P1-P3 on TP cases
        tp = collections.defaultdict(list)
        for cid, line in cases.items():
            if line.startswith('TP '):
                f = line.split(' ')
                tp[f[2]].append((ws.unhx(f[3]), traces[cid], cid))
        for tag, lst in tp.items():
            lst.sort(key=lambda x: len(x[0]))
            for buf, t, cid in lst:
                if t.startswith('C:'):
                    n = int(t.split(':')[1])
                    for buf2, t2, cid2 in lst:
                        if buf2[:n] == buf[:n] and len(buf2) >= n and t2 != t:
                            return ('parser-P2: complete parse of a head changed on an extension', cid2)
                        if len(buf2) < n and buf[:len(buf2)] == buf2 and t2 != 'P':
                            return ('parser-P2: proper prefix of a complete head is not Partial', cid2)
                if t in ('E', 'M'):
                    for buf2, t2, cid2 in lst:
                        if buf2[:len(buf)] == buf and len(buf2) > len(buf) and t2 not in ('E', 'M'):
                            return ('parser-P2: an error did not persist on an extension', cid2)
        return None


def _c16_nohook_cases(self, tier):
    return ['KR kr %d' % (256 if tier == 'quick' else 4096)]
def _c16_nohook_monitor(self, case_line, trace):
    kv = dict(x.split('=') for x in trace.split(' ') if '=' in x)
    if not kv:
        return 'key-stats: hook-off build did not run (%s)' % trace[:60]
    n = int(kv['requests'])
    if int(kv['wellformed16']) != n:
        return 'key-shape: %s of %d request keys are base64 of 16 bytes' % (kv['wellformed16'], n)
    if int(kv['distinct']) != n:
        return 'key-not-fresh: only %s distinct Sec-WebSocket-Key values in %d requests' % (kv['distinct'], n)
    if int(kv.get('repeated', 0)) > 0:
        return 'key-structure: %s of %d keys repeat a group of their own characters (not 16 independent random bytes)' % (kv['repeated'], n)
    if int(kv.get('minposvals', 64)) < (20 if n <= 256 else 50):
        return 'key-structure: a character position of the key takes only %s distinct values over %d requests' % (kv['minposvals'], n)
    return None
C16.nohook_cases = _c16_nohook_cases
C16.nohook_monitor = _c16_nohook_monitor
