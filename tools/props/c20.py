from .base import Prop

NAMES = {1000: 'Normal', 1001: 'Away', 1002: 'Protocol', 1003: 'Unsupported', 1005: 'Status', 1006: 'Abnormal',
         1007: 'Invalid', 1008: 'Policy', 1009: 'Size', 1010: 'Extension', 1011: 'Error', 1012: 'Restart',
         1013: 'Again', 1015: 'Tls'}

def allowed(c):
    return 1000 <= c <= 1003 or 1007 <= c <= 1013 or 3000 <= c <= 4999

class C20(Prop):
    id = 'C20'
    required_theorems = ['C20_to_of', 'C20_of_to_of', 'C20_allowed']
    rule = ('complete enumeration of all 65536 u16 codes through CloseCode::from(u16), u16::from(CloseCode), is_allowed; '
            'a case is non-trivial and distinct per code value (every code exercises one arm of the match chain)')
    engine_desc = 'E1 CloseCode::from/into/is_allowed vs Coding.close_of_u16/close_to_u16/close_allowed'
    level_text = ('Theorems C20_to_of, C20_of_to_of, C20_allowed proved in Coq for every 16-bit code (case analysis + lia, no enumeration); '
                  'the model agrees with coding.rs on all 65536 codes, checked exhaustively on every run - a complete tie for this property.')
    level_note = 'Trusted: Coq kernel, the hand-written Coding.v (tied exhaustively), extraction+driver, harness. No axioms.'
    technique = 'Coq proof (case analysis on the comparison chain) + exhaustive model/implementation correspondence over all 65536 codes'
    assumptions = ['model Coding.v agrees with coding.rs on the entire 16-bit domain (checked exhaustively on every run)']

    def generate(self, tier, rng):
        return ['CC %d %d' % (c, c) for c in range(65536)]
    def exhaustive(self, tier):
        return True
    def monitor(self, case_line, trace, mline):
        c = int(case_line.split(' ')[2])
        parts = trace.split(':')
        if len(parts) != 5:
            return 'malformed: trace %r' % trace
        name, back, al, byref, disp = parts
        if int(byref) != c or disp != str(c):
            return 'roundtrip: u16::from(&CloseCode::from(%d)) = %s, Display = %s' % (c, byref, disp)
        if int(back) != c:
            return 'roundtrip: u16::from(CloseCode::from(%d)) = %s' % (c, back)
        if (al == '1') != allowed(c):
            return 'is_allowed: CloseCode::from(%d).is_allowed() = %s' % (c, al)
        return None
    def nontrivial_key(self, case_line, trace):
        return case_line.split(' ')[2]
    def distribution(self, cases):
        return {'codes': len(cases), 'allowed': sum(1 for c in range(65536) if allowed(c)), 'named_variants': len(NAMES)}
