from .c20 import C20
from .c18 import C18
from .c19 import C19
from .c03 import C03
from .c13 import C13
from .hs import C15, C16, C17
from .c04 import C04
from .sock import C01, C02, C05, C06, C07, C08, C09, C10, C11, C12, C14
REGISTRY = {p.id: p for p in [C01(), C02(), C03(), C04(), C05(), C06(), C07(), C08(), C09(), C10(), C11(), C12(), C13(), C14(),
                              C15(), C16(), C17(), C18(), C19(), C20()]}
