from .c20 import C20
from .c18 import C18
from .c19 import C19
from .c03 import C03
from .c13 import C13
from .hs import C15, C16, C17
REGISTRY = {p.id: p for p in [C20(), C18(), C19(), C03(), C13(), C15(), C16(), C17()]}
