from .c20 import C20
REGISTRY = {p.id: p for p in [C20()]}
