"""Socket-level properties on engine E2 (and E1 for C08)."""
import collections, itertools
from .e2common import E2Prop
from .. import ws, gen_e2, gen_streams, monitors, rfc

def reid(cases):
    out = []
    for k, c in enumerate(cases):
        f = c.split(' '); f[1] = 'k%d' % k; out.append(' '.join(f))
    return out

def read_results(ots, ops):
    return [ot.res for op, ot in zip(ops, ots) if op == 'r']

def compare_reader(case, ots, mfs=None, mms=None):
    """independent RFC decoder vs the implementation's successive reads (up to the first error/close)"""
    stream = ws.inbound_of(case, ots)
    items, _ = rfc.decode(stream, case.role, case.au, case.mfs, case.mms)
    exp = [rfc.item_result(it) for it in items]
    ended = any('R:eof' in ot.events for ot in ots)
    if not exp or not (exp[-1] == 'close' or exp[-1].startswith('err-class')):
        if ended:
            exp.append('err-class:Protocol')     # EOF without closing handshake
    got = []
    for r in read_results(ots, case.ops):
        if r == 'err:io:wb':
            continue
        c = rfc.trace_class(r)
        got.append(c)
        if c == 'close' or c.startswith('err'):
            break
    if got != exp[:len(got)] or (len(got) < len(exp) and len(read_results(ots, case.ops)) > len(got) + sum(1 for r in read_results(ots, case.ops) if r == 'err:io:wb')):
        return 'decoder-differs: reads gave %r, independent RFC 6455 decoder gives %r' % ([g[:30] for g in got][:8], [e[:30] for e in exp][:8])
    if len(got) < len(exp):
        # not enough read ops to see everything: only a prefix was compared
        pass
    return None

def limit_change_cases(rng, n):
    """implementation-only cases: the inbound limits are changed with set_config in the middle of a fragmented message"""
    out = []
    for i in range(n):
        role = 'sc'[i % 2]
        pf = lambda op, p, **kw: gen_e2.peer_frame(role, op, p, **kw)
        sizes = [rng.choice([0, 1, 10, 50, 100, 200]) for _ in range(rng.randint(2, 4))]
        kind = rng.choice([1, 2])
        frames = [pf(kind if j == 0 else 0, (b'a' if kind == 1 else b'\x01') * sz, fin=(j == len(sizes) - 1)) for j, sz in enumerate(sizes)]
        m0, m1 = rng.choice([(1000, 50), (1000, 0), (300, 120), (50, 1000), (None, 10)])
        ops = []
        cut = rng.randint(1, len(frames) - 1)
        for j in range(len(frames)):
            if j == cut:
                ops.append('sl:%s:%s:%d' % ('none' if m1 is None else m1, rng.choice(['none', '5', '1000']), rng.randint(0, 1)))
            ops.append('r')
        ops += ['r', 'r']
        rds = []
        for fr in frames:
            rds += ['d:' + ws.hx(fr), 'e:wb']
        line = ws.scase_line('si%d' % i, role, ops, rds, [], [], mms=m0, mfs=None, rbs=rng.choice([0, 64, 4096]))
        out.append('SI' + line[1:])
    return out

def mon_limit_change(case_line, trace):
    """no panic; a message all of whose fragments arrived after the limits were lowered must respect the new limit"""
    if 'panic' in trace:
        return 'panic-after-set_config: lowering the inbound limits in mid-message made a call panic: %s' % trace[:80]
    case = ws.SCase(case_line); ots = ws.parse_trace(trace)
    cur = case.mms
    for op, ot in zip(case.ops, ots):
        if op.startswith('sl:'):
            p = op.split(':'); cur = None if p[1] == 'none' else int(p[1])
            continue
        if op == 'r' and (ot.res.startswith('ok:T:') or ot.res.startswith('ok:B:')):
            # the size test runs on every fragment with the limit then in force: a message completed after the change obeys it
            if cur is not None and len(ws.unhx(ot.res[5:])) > cur:
                return 'limit-ignored-after-set_config: delivered %d bytes with max_message_size %d in force when the message was completed' % (len(ws.unhx(ot.res[5:])), cur)
    return None

def au_flip_cases(rng, n):
    """accept_unmasked_frames changed by set_config on a live connection: the mask-direction rule must follow the value in force"""
    out = []
    for i in range(n):
        role = 'ssc'[i % 3]
        au0 = rng.randint(0, 1)
        flips = sorted(rng.sample(range(1, 6), rng.randint(1, 2)))
        ops, rds, plan = [], [], []
        au = au0
        for j in range(6):
            if j in flips:
                au = 1 - au
                ops.append('sl:none:none:%d' % au)
            masked = rng.random() < 0.5
            fr = ws.encode_frame(1, b'hi', mask=b'\x11\x22\x33\x44' if masked else None)
            ops.append('r'); rds += ['d:' + ws.hx(fr), 'e:wb']
            plan.append((masked, au))
        line = ws.scase_line('au%d' % i, role, ops + ['r'], rds, [], [], au=bool(au0), rbs=rng.choice([0, 64, 4096]))
        out.append('SI' + line[1:])
    return out

def mon_au_flip(case_line, trace):
    case = ws.SCase(case_line); ots = ws.parse_trace(trace)
    au = case.au
    for op, ot in zip(case.ops, ots):
        if op.startswith('sl:'):
            au = op.split(':')[3] == '1'
            continue
        if op != 'r' or ot.res == 'err:io:wb':
            continue
        data = [e for e in ot.events if e.startswith('R:') and not e.startswith('R:e') and e not in ('R:eof', 'R:EMPTYBUF')]
        if not data:
            continue
        masked = bool(bytes.fromhex(data[0][2:])[1] & 0x80)
        if case.role == 's':
            ok = masked or au
        else:
            ok = not masked
        if ok and not ot.res.startswith('ok:T:6869'):
            return 'mask-rule-stale: %s frame refused (%s) with accept_unmasked_frames=%s in force' % ('masked' if masked else 'unmasked', ot.res[:40], au)
        if not ok and not ot.res.startswith('err:proto'):
            return 'mask-rule-stale: %s frame answered %s with accept_unmasked_frames=%s in force (a protocol error is due)' % ('masked' if masked else 'unmasked', ot.res[:40], au)
        if not ok:
            break
    return None

class StreamProp(E2Prop):
    """reader cases built from generated frame sequences"""
    proto_class_only = True       # C02/C05/C06/C08 name the error class (protocol / capacity / utf8), not the ProtocolError variant
    n_quick = 1500
    n_thorough = 60000
    seg_all = False
    limits = False
    def gen_streams(self, tier, rng):
        n = self.n_quick if tier == 'quick' else self.n_thorough
        out = []
        for i in range(n):
            sc = gen_streams.stream_case(rng)
            data = b''.join(sc['frames'])
            segs = gen_streams.segmentations(rng, data, tier == 'quick') if self.seg_all else [rng.choice(gen_streams.segmentations(rng, data))]
            for j, chunks in enumerate(segs):
                wb = rng.random() < 0.4
                pre = b''
                if self.seg_all and chunks and rng.random() < 0.3:
                    pre, chunks = chunks[0], chunks[1:]
                nreads = len(sc['frames']) + (len(chunks) if wb else 0) + 3
                rbs = rng.choice([0, 1, 2, 5, 6, 7, 8, 13, 14, 15, 64, 4096, 131072]) if (self.seg_all or rng.random() < 0.35) else 4096
                line = gen_streams.reader_case('s%d_%d' % (i, j), sc['role'], chunks, nreads, au=sc['au'], rbs=rbs, pre=pre, wb_between=wb)
                if rng.random() < 0.25:
                    # what is read does not depend on what the user does in between: own close, writes, flushes at random points
                    f = line.split(' ')
                    ops = f[11].split(',')
                    for _ in range(rng.randint(1, 3)):
                        ops.insert(rng.randint(0, len(ops)), rng.choice(['c:-', 'c:1000:6279', 'c:-', 'wt:6869', 'wpi:70', 'f']))
                    f[11] = ','.join(ops)
                    f[13] = ','.join(['a:100000'] * 12)
                    line = ' '.join(f)
                out.append(line)
        return out
    def monitor(self, case_line, trace, mline):
        case, ots = self.parse(case_line, trace)
        return monitors.mon_emptybuf(ots) or compare_reader(case, ots) or monitors.mon_c09(case, ots)

class C02(StreamProp):
    id = 'C02'
    rule = ('grammar-generated frame sequences (fragmentation depth 1-4, interleaved controls, non-minimal lengths, both roles, accept_unmasked on/off), '
            'the same with one of %d rule violations injected, optional Close, the exhaustive single-frame alphabet (opcode x FIN x size {0,1,125,126} x RSV x right/wrong mask) per role; accept_unmasked_frames flipped by set_config between frames; every case compared with an independent RFC 6455 decoder; distinct by trace' % len(gen_streams.VIOLATIONS))
    level_text = 'read refines an independent declarative RFC 6455 decoder (theorem over all byte streams/schedules); model tied by differential streams incl. every rule violation'
    level_note = 'Trusted: Coq kernel, Protocol.v/Codec.v/Utf8.v, the RFC spec decoder in Coq (short, auditable), correspondence generators'
    def generate(self, tier, rng):
        out = self.gen_streams(tier, rng)
        k = 0
        for role in 'sc':
            alpha = gen_streams.single_frame_alphabet(role)
            if tier == 'quick':
                alpha = rng.sample(alpha, 160)
            for fr in alpha:
                for prefix in (b'', gen_e2.peer_frame(role, 1, b'he', fin=False), gen_e2.peer_frame(role, 2, b'ok')):
                    for au in (False, True):
                        data = prefix + fr + gen_e2.peer_frame(role, 1, b'tail')
                        out.append(gen_streams.reader_case('a%d' % k, role, [data], 5, au=au)); k += 1
        return reid(self.corpus() + out) + au_flip_cases(rng, 60 if tier == 'quick' else 1500)
    def monitor(self, case_line, trace, mline):
        if case_line.startswith('SI '):
            return mon_au_flip(case_line, trace)
        return StreamProp.monitor(self, case_line, trace, mline)

class C05(StreamProp):
    id = 'C05'
    props_files = ['C05', 'C05b']
    seg_all = True
    n_quick = 400
    n_thorough = 15000
    rule = ('each generated stream under: whole, 1-byte drip, random cuts, WouldBlock between segments, pre-read split, read_buffer_size in {0,1,2,5,6,13,14,15,64,4096,131072}; '
            'every segmentation must equal the independent whole-stream decoder; with an accepting write side all segmentations of the same bytes are also compared with each other (reads up to the first error); distinct by trace')
    level_text = 'read_frame under ANY read schedule equals a whole-stream reference decoder (theorem, unbounded); message-level corollary; read_buffer_size absent from the model: independence of it rests on the correspondence runs'
    level_note = 'Trusted: Coq kernel, Codec.v, correspondence over buffer sizes'
    def generate(self, tier, rng):
        out = self.gen_streams(tier, rng)
        # every (pre-read length, next cut) inside the header of each header class x small read buffers
        k2 = 0
        heads = []
        for role in 'sc':
            for n in (5, 126, 65536):
                heads.append((role, gen_e2.peer_frame(role, 2, bytes(range(7)) * (n // 7) + bytes(range(n % 7))) + gen_e2.peer_frame(role, 1, b'ok')))
                heads.append((role, gen_e2.peer_frame(role, 2, b'abcde', lenform=16 if n == 126 else 64 if n == 65536 else None) + gen_e2.peer_frame(role, 9, b'')))
        combos = [(hi, pre, cut, rbs) for hi in range(len(heads)) for pre in range(0, 16) for cut in range(pre, 17)
                  for rbs in (0, 1, 2, 5, 6, 7, 8, 13, 14, 15, 16, 64)]
        if tier == 'quick':
            combos = rng.sample(combos, 2500)
        for hi, pre, cut, rbs in combos:
            role, data = heads[hi]
            chunks = [c for c in (data[pre:cut], data[cut:]) if c]
            out.append(gen_streams.reader_case('h%d' % k2, role, chunks, 6, rbs=rbs, pre=data[:pre], wb_between=(k2 % 3 == 0))); k2 += 1
        # a frame larger than the default read buffer (128 KiB) with the next frames arriving in the same read as its tail
        for role in 'sc':
            bigp = bytes((i * 7) & 255 for i in range(140000))
            data = gen_e2.peer_frame(role, 2, bigp) + gen_e2.peer_frame(role, 1, b'after') + gen_e2.peer_frame(role, 9, b'p') + gen_e2.peer_frame(role, 2, b'\x01\x02')
            hl = len(data) - 140000 - 30
            for chunks in ([data], [data[:1000], data[1000:]], [data[:hl + 140000 - 5], data[hl + 140000 - 5:]], [data[:len(data) - 12], data[len(data) - 12:]]):
                out.append(gen_streams.reader_case('big%d' % k2, role, chunks, 8, rbs=rng.choice([4096, 131072]))); k2 += 1
        # exhaustive pairs of cuts for short streams
        short = [b''.join(gen_streams.stream_case(rng)['frames']) for _ in range(30)]
        k = 0
        for data in [d for d in short if 4 <= len(d) <= 24][:4 if tier == 'quick' else 30]:
            for a in range(1, len(data)):
                for b in range(a, len(data)):
                    chunks = [c for c in (data[:a], data[a:b], data[b:]) if c]
                    out.append(gen_streams.reader_case('p%d' % k, 'c', chunks, 10, wb_between=(k % 2 == 0))); k += 1
        # half of the pure-read cases get a write side that accepts everything (the hypothesis `supply` of C05_messages): under it
        # the results of successive reads must be the same for every segmentation of the same bytes - compared case against case
        # by group_monitor below, with no model and no reference decoder in between
        res = []
        for line in out:
            f = line.split(' ')
            if f[0] == 'S' and f[13] in ('-', '') and all(o == 'r' for o in f[11].split(',')) and (sum(f[12].encode()) % 2 == 0 or len(f[12]) < 200):
                f[13] = ','.join(['a:1000000'] * (2 * len(f[11].split(',')) + 4))
                line = ' '.join(f)
            res.append(line)
        return reid(res)
    def group_monitor(self, cases, traces):
        groups = collections.defaultdict(list)
        for cid, line in cases.items():
            if not line.startswith('S '):
                continue
            c = ws.SCase(line)
            if not c.ops or any(o != 'r' for o in c.ops) or not c.wrs or any(not w.startswith('a:1000000') for w in c.wrs):
                continue
            data = c.pre + b''.join(ws.unhx(r[2:]) for r in c.rds if r.startswith('d:'))
            end = tuple(r for r in c.rds if not r.startswith('d:') and r != 'e:wb')
            groups[(c.role, c.au, c.mms, c.mfs, data, end)].append(cid)
        for key, ids in groups.items():
            if len(ids) < 2:
                continue
            seqs = []
            for cid in ids:
                seq = []
                for ot in ws.parse_trace(traces.get(cid, '').split(' ## ')[0]):
                    if ot.res == 'err:io:wb':
                        continue
                    seq.append(ot.res)        # exact results: "the final error is the same", variant included
                    if seq[-1].startswith('err') or seq[-1].startswith('panic'):
                        break
                seqs.append((seq, cid))
            base, bid = max(seqs, key=lambda t: len(t[0]))
            for seq, cid in seqs:
                if seq != base[:len(seq)]:
                    return ('segmentation-dependent: the same %d inbound bytes gave reads %r under one segmentation (%s) and %r under another' %
                            (len(key[4]), [x[:24] for x in base[:6]], bid, [x[:24] for x in seq[:6]]), cid)
        return None

class C06(StreamProp):
    id = 'C06'
    props_files = ['C06', 'C06b']
    impl_only_kinds = ('EP',)
    rule = ('(max_frame_size, max_message_size, read_buffer_size) over {0,1,2,5,125,126,1000}^2 x {0,64,4096} x fragment patterns with sizes limit-1/limit/limit+1, '
            'text with a split code point at the limit, announced lengths up to 2^64-1 with no payload; compared with the independent decoder with the same limits; '
            'limits installed by set_config (at time zero and in the middle of a fragmented message; implementation-only cases, monitor only), every config setter/field pair; counting allocator on reads')
    level_text = 'frame/message bounds, capacity errors, reject-before-payload and reserve bound proved on the model for all limits and lengths < 2^64, also along histories in which set_config changes the limits mid-message (C06b); physical heap use is a runtime fact (partial)'
    level_note = 'Trusted: Coq kernel, Codec.v/Message.v; allocator behaviour is outside the model'
    partial = 'physical heap use (BytesMut/Vec growth, allocator) cannot be exhibited by the model'
    def generate(self, tier, rng):
        out = []
        k = 0
        lims = [0, 1, 2, 5, 125, 126, 1000]
        combos = list(itertools.product(lims, lims, [0, 64, 4096]))
        if tier == 'quick':
            combos = rng.sample(combos, 40)
        for F, M, rbs in combos:
            for role in 'sc':
                pf = lambda op, p, **kw: gen_e2.peer_frame(role, op, p, **kw)
                pats = []
                for d in (-1, 0, 1):
                    n = max(0, M + d)
                    pats.append([pf(2, b'b' * n)])
                    pats.append([pf(2, b'b' * (n // 2), fin=False), pf(0, b'b' * (n - n // 2))])
                    pats.append([pf(1, b't' * min(n, 3), fin=False), pf(9, b''), pf(0, b't' * max(0, n - 3), fin=False), pf(0, b'')])
                    n = max(0, F + d)
                    pats.append([pf(2, b'f' * n)])
                    pats.append([pf(9, b'p' * min(n, 125))])
                for d in (-1, 0, 1):
                    n = max(0, M + d)
                    pats.append([pf(1, b't' * n)])                                    # unfragmented text at the limit
                    a, b_ = n // 3, n // 3
                    c = n - a - b_
                    pats.append([pf(2, b'x' * a, fin=False), pf(0, b'y' * b_, fin=False), pf(0, b'z' * c)])      # three non-empty fragments
                    pats.append([pf(1, b'x' * a, fin=False), pf(0, b'y' * b_, fin=False), pf(9, b'p'), pf(0, b'z' * c, fin=False), pf(0, b'')])
                euro = '€'.encode()
                pats.append([pf(1, b'a' * max(0, M - 2) + euro[:1], fin=False), pf(0, euro[1:])])
                for frames in pats:
                    data = b''.join(frames)
                    out.append(gen_streams.reader_case('l%d' % k, role, [data], len(frames) + 2, mms=M, mfs=F, rbs=rbs)); k += 1
                # the same limits installed with set_config after construction (harness '@sc')
                for frames in pats[:6]:
                    line = gen_streams.reader_case('l%d' % k, role, [b''.join(frames)], len(frames) + 2, mms=M, mfs=F, rbs=rbs); k += 1
                    f_ = line.split(' '); f_[8] += '@sc'; out.append(' '.join(f_))
                # announced lengths with no payload
                for n in (F + 1, 2**16, 2**20, 2**27, 2**32, 2**63 - 1, 2**63, 2**64 - 1):
                    hdr = bytes([0x82, (0x80 if role == 's' else 0) | 127]) + n.to_bytes(8, 'big') + (b'\x01\x02\x03\x04' if role == 's' else b'')
                    out.append(gen_streams.reader_case('l%d' % k, role, [hdr], 4, mms=M, mfs=F, rbs=rbs, end=None)); k += 1
        # the caller keeps reading after Error::Utf8 on a continuation fragment (valid prefix + invalid byte): what was appended counts
        for role in 'sc':
            pf = lambda op, p_, **kw: gen_e2.peer_frame(role, op, p_, **kw)
            for lim in (50, 100):
                for rep in (1, 3, 8):
                    frames = [pf(1, b'a' * 20, fin=False)] + [pf(0, b'b' * 30 + b'\xff', fin=False)] * rep + [pf(0, b'c' * 40, fin=False), pf(0, b'd' * 40)]
                    rds = []
                    for fr in frames: rds += ['d:' + ws.hx(fr), 'e:wb']
                    out.append(ws.scase_line('ue%d' % k, role, ['r'] * (2 * len(frames) + 2), rds, [], [], mms=lim)); k += 1
        return reid(out) + ['EP ep0'] + limit_change_cases(rng, 60 if tier == 'quick' else 600)
    def monitor(self, case_line, trace, mline):
        if case_line.startswith('SI '):
            return mon_limit_change(case_line, trace)
        if case_line.startswith('EP '):
            bad = [x for x in trace.split(' ') if x.endswith('=BAD')]
            return ('config-plumbing: ' + ','.join(bad) + ' does not carry the configured limits to the socket') if bad or not trace else None
        case, ots = self.parse(case_line, trace)
        v = compare_reader(case, ots)
        if v: return v
        rr = read_results(ots, case.ops)
        for r in rr:
            if r.startswith('ok:T:') or r.startswith('ok:B:'):
                n = len(ws.unhx(r[5:]))
                if case.mms is not None and n > case.mms:
                    return 'message-over-limit: delivered %d bytes with max_message_size %d' % (n, case.mms)
        # supporting runtime test (allocator): inside read calls no single allocation request and no peak of live bytes may
        # grow with what the peer merely announces: bound = small multiple of the configured limits + read buffer
        st = ws.alloc_stats(trace)
        if st is not None and case.mfs is not None and case.mms is not None:
            bound = 4 * (case.mfs + case.mms) + 2 * case.rbs + 4096
            if st[0] > bound or st[1] > 2 * bound:
                return ('allocation-exceeds-limits: a read allocated %d bytes in one request (peak %d) with max_frame_size %d, max_message_size %d, read_buffer_size %d'
                        % (st[0], st[1], case.mfs, case.mms, case.rbs))
        # once a frame header announced more than max_frame_size, that frame must never be accepted, however often
        # the caller retries, and no call may try to allocate for it (a panic in reserve is such an attempt)
        seen_cap = False
        items, _ = rfc.decode(ws.inbound_of(case, ots), case.role, case.au, case.mfs, case.mms)
        frame_rule = bool(items) and items[-1][0] == 'ERR' and items[-1][2] == 'frame-too-long'
        for r in rr:
            if r.startswith('err:cap:'):
                p = r.split(':')
                if frame_rule and case.mfs is not None and int(p[3]) == case.mfs and int(p[2]) > case.mfs:
                    seen_cap = True
                continue
            if seen_cap and (r.startswith('ok:T:') or r.startswith('ok:B:') or r.startswith('ok:P')):
                return 'over-limit-frame-accepted-on-retry: a read after the frame-size capacity error delivered %s' % r[:40]
            if seen_cap and r.startswith('panic'):
                return 'over-limit-frame-allocation-on-retry: a read after the frame-size capacity error panicked (allocation for the announced length)'
        return None

class C08(StreamProp):
    id = 'C08'
    props_files = ['C08', 'C08b']
    rule = ('from_utf8 vs model: all byte strings of length <= 2 and length 3-4 over a 24-letter alphabet of byte-class representatives (exhaustive in thorough), random longer; '
            'fragmented text through read: boundary scalars and every invalid form x cuts into <= 4 fragments; delivered text checked with Python bytes.decode; '
            'MA: Message/Frame accessor API (is_*, len, is_empty, into_data, into_text, to_text, Display, From/TryFrom conversions) on valid/invalid payloads of every message kind and raw frames at the length-form boundaries')
    level_text = 'from_utf8 model = Unicode Table 3-7 grammar; collector accepts iff the concatenation is valid, wherever the cuts fall; every text reachable through read or through the Message/Frame accessors (into_text, to_text, Display) is valid (theorems, C08b); model of std::str::from_utf8 tied by exhaustive small strings'
    level_note = 'Trusted: Coq kernel, Utf8.v (model of std + utf-8 0.7.6), correspondence'
    ALPHA = [0x00, 0x41, 0x7f, 0x80, 0x8f, 0x90, 0x9f, 0xa0, 0xbf, 0xc0, 0xc1, 0xc2, 0xdf, 0xe0, 0xe1, 0xec, 0xed, 0xee, 0xef, 0xf0, 0xf1, 0xf3, 0xf4, 0xf5]
    def generate(self, tier, rng):
        out = []
        k = 0
        quick = tier == 'quick'
        for n in (0, 1, 2):
            for t in itertools.product(range(256), repeat=n) if n < 2 or not quick else [(a, b) for a in self.ALPHA + [0xc3, 0xe2, 0xff] for b in range(0, 256, 3)]:
                out.append('U8 u%d %s' % (k, ws.hx(bytes(t)))); k += 1
        for n in (3, 4):
            space = list(itertools.product(self.ALPHA, repeat=n))
            if quick:
                space = rng.sample(space, 3000)
            for t in space:
                out.append('U8 u%d %s' % (k, ws.hx(bytes(t)))); k += 1
        scal = ['\u0000', '\u007f', '\u0080', '߿', 'ࠀ', '퟿', '', '￿', '\U00010000', '\U0010ffff']
        strings = [s.encode() for s in scal] + [(a + b).encode() for a in scal[1:] for b in scal[1:]][:40] + gen_streams.BAD_UTF8 + \
                  [b'ok' + b + b'ok' for b in gen_streams.BAD_UTF8]
        for s in strings:
            if len(s) <= 8:
                cutsets = [c for r in range(0, 4) for c in itertools.combinations(range(0, len(s) + 1), r)]
                if quick: cutsets = rng.sample(cutsets, min(len(cutsets), 12))
            else:
                cutsets = [tuple(sorted(rng.sample(range(len(s) + 1), 2))) for _ in range(4)]
            for cuts in cutsets:
                parts = []; prev = 0
                for c in cuts:
                    parts.append(s[prev:c]); prev = c
                parts.append(s[prev:])
                role = 'c' if k % 2 else 's'
                frames = [gen_e2.peer_frame(role, 1 if i == 0 else 0, p, fin=(i == len(parts) - 1)) for i, p in enumerate(parts)]
                out.append(gen_streams.reader_case('t%d' % k, role, [b''.join(frames)], 3)); k += 1
            # close reason
            out.append(gen_streams.reader_case('t%d' % k, 'c', [gen_e2.peer_frame('c', 8, gen_e2.close_payload(1000, s[:100]))], 2)); k += 1
        # close reasons at and near the largest legal size (123 bytes) ending in a truncated or complete multi-byte character
        for tail_ in (b'\xc3', b'\xe2', b'\xe2\x82', b'\xf0', b'\xf0\x9f', b'\xf0\x9f\x98', b'\xc3\xa9', b'\xe2\x82\xac', b'\xf0\x9f\x98\x80', b'\x80', b'\xff'):
            for total in (len(tail_), 60, 120, 121, 122, 123):
                if total < len(tail_): continue
                for role in 'sc':
                    reason = b'r' * (total - len(tail_)) + tail_
                    out.append(gen_streams.reader_case('t%d' % k, role, [gen_e2.peer_frame(role, 8, gen_e2.close_payload(1000, reason))], 2)); k += 1
        # close frames whose status code may not appear on the wire (the reply then carries 1002): the reason must be validated all the
        # same, in the active state and after this endpoint's own Close (when the peer's frame is reported unchanged)
        for code in (1005, 1006, 1015, 0, 999, 1016, 2999, 5000, 65535, 1000, 3000):
            for reason in (b'ok', b'\xff', b'ab\xc3', b'\xed\xa0\x80', b'\xf0\x9f\x98', 'gr\u00fc\u00df'.encode()):
                for role in 'sc':
                    fr = gen_e2.peer_frame(role, 8, gen_e2.close_payload(code, reason))
                    out.append(gen_streams.reader_case('t%d' % k, role, [fr], 2)); k += 1
                    out.append(ws.scase_line('t%d' % k, role, ['c:-', 'r', 'r'], ['d:' + ws.hx(fr)], ['a:1000'] * 4, [])); k += 1
        # max_message_size equal to (or 1-2 bytes above) the real total while a fragment ends inside a character: the undecoded
        # tail counts as the bytes it is, not more
        for txt in ('a\u00e9b', '\u20acuro', 'x\U0001F600y', '\u00e9\u20ac\U0001F600'):
            b = txt.encode()
            for c1 in range(1, len(b)):
                for c2 in (None,) + tuple(range(c1 + 1, len(b))):
                    parts = [b[:c1], b[c1:]] if c2 is None else [b[:c1], b[c1:c2], b[c2:]]
                    for extra in (0, 1, 2):
                        role = 'c' if k % 2 else 's'
                        frames = [gen_e2.peer_frame(role, 1 if i == 0 else 0, p_, fin=(i == len(parts) - 1)) for i, p_ in enumerate(parts)]
                        out.append(gen_streams.reader_case('t%d' % k, role, [b''.join(frames)], len(parts) + 2, mms=len(b) + extra)); k += 1
        # a multi-byte character cut by fragments that are valid (or empty) on their own
        for ch in ('é', '€', '\U0001F600'):
            b = ch.encode()
            for cut in range(1, len(b)):
                for mid in ([b'abc'], [b''], [b'ab', b'c'], ['ü'.encode()], [b'a', b'']):
                    for tail in (b'', b'z'):
                        parts = [b'ok' + b[:cut]] + mid + [b[cut:] + tail]
                        role = 'c' if k % 2 else 's'
                        frames = [gen_e2.peer_frame(role, 1 if i == 0 else 0, p_, fin=(i == len(parts) - 1)) for i, p_ in enumerate(parts)]
                        out.append(gen_streams.reader_case('t%d' % k, role, [b''.join(frames)], 3)); k += 1
        out += self.message_api_cases(quick, rng, k)
        return out
    def message_api_cases(self, quick, rng, k):
        """MA: the accessor/conversion API of Message and Frame (len, is_*, into_data, into_text, to_text, Display, From impls)"""
        out = []
        pays = [b'', b'a', 'h\u00e9'.encode(), '\u20ac'.encode(), '\U0001F600'.encode()] + gen_streams.BAD_UTF8 + [b'ok' + b for b in gen_streams.BAD_UTF8] + \
               [b'\xff' * n for n in (9, 10, 11, 99, 100, 101, 125, 126, 999, 1000, 65535, 65536)] + [b'z' * n for n in (125, 126, 65535, 65536)]
        if not quick:
            pays += [bytes(t) for n in (1, 2, 3) for t in itertools.product(self.ALPHA, repeat=n)]
        else:
            pays += [bytes(rng.choice(self.ALPHA) for _ in range(rng.randint(1, 6))) for _ in range(300)]
        for p_ in pays:
            for kind in ('B', 'PI', 'PO'):
                out.append('MA m%d %s %s' % (k, kind, ws.hx(p_))); k += 1
            if ws.is_utf8(p_):
                out.append('MA m%d T %s' % (k, ws.hx(p_))); k += 1
                if len(p_) <= 123:
                    out.append('MA m%d C %d %s' % (k, rng.choice([1000, 1001, 1005, 3000, 4999, 0, 65535]), ws.hx(p_))); k += 1
            for flags, opc, mask in (('1000', 1, '-'), ('0000', 2, '01020304'), ('1111', 9, '-'), ('1000', 8, 'ffffffff'), ('0100', 0, '-')):
                if len(p_) <= 1000 or opc == 1:
                    out.append('MA m%d F %s %d %s %s' % (k, flags, opc, mask, ws.hx(p_))); k += 1
        out.append('MA m%d C - -' % k); k += 1
        return out
    @staticmethod
    def mon_message_api(case_line, trace):
        f = case_line.split(' ')
        kind = f[2]
        t = trace.split(':')
        if len(t) != 9:
            return 'message-api: unexpected answer %s' % trace[:60]
        flags, ln, empty, data, it, tt, disp, frm, ctor = t
        payload = ws.unhx(f[6] if kind == 'F' else f[4] if kind == 'C' else f[3])
        exp_flags = {'T': '10000', 'B': '01000', 'PI': '00100', 'PO': '00010', 'C': '00001', 'F': '00000'}[kind]
        if flags != exp_flags:
            return 'message-api: is_* flags %s for kind %s' % (flags, kind)
        n = len(payload)
        if kind == 'F':
            n += 2 + (0 if n < 126 else 2 if n < 65536 else 8) + (0 if f[5] == '-' else 4)
        if int(ln) != n or (empty == '1') != (n == 0):
            return 'message-api: len()/is_empty() = %s/%s, expected %d' % (ln, empty, n)
        if ws.unhx(data) != payload or ws.unhx(frm) != payload:
            return 'message-api: into_data / Bytes::from returned other bytes than the payload'
        valid = ws.is_utf8(payload)
        exp_t = ('ok=' + ws.hx(payload)) if valid else 'err'
        if it != exp_t or tt != exp_t:
            return 'message-api: into_text/to_text = %s/%s on %s payload' % (it[:20], tt[:20], 'valid' if valid else 'invalid')
        exp_d = payload if valid else ('Binary Data<length=%d>' % n).encode()
        if ws.unhx(disp) != exp_d:
            return 'message-api: Display printed %r' % ws.unhx(disp)[:40]
        if ctor != '1':
            return 'message-api: constructors / Utf8Bytes conversions disagree'
        return None
    def monitor(self, case_line, trace, mline):
        if case_line.startswith('MA '):
            return self.mon_message_api(case_line, trace)
        if case_line.startswith('U8 '):
            b = ws.unhx(case_line.split(' ')[2])
            try:
                b.decode('utf-8'); exp = 'ok'
            except UnicodeDecodeError as e:
                exp = None
            if (trace == 'ok') != (exp == 'ok'):
                return 'from-utf8: from_utf8(%s) = %s but Python says %s' % (b.hex(), trace, 'valid' if exp else 'invalid')
            return None
        case, ots = self.parse(case_line, trace)
        for r in read_results(ots, case.ops):
            if r.startswith('ok:T:') and not ws.is_utf8(ws.unhx(r[5:])):
                return 'invalid-text-delivered: %s' % r[:60]
            if r.startswith('ok:C:') and r != 'ok:C:-' and not ws.is_utf8(ws.unhx(r.split(':')[3])):
                return 'invalid-close-reason-delivered: %s' % r[:60]
        return compare_reader(case, ots)
    def nontrivial_key(self, case_line, trace):
        return hash(case_line.split(' ', 2)[2])
    def distribution(self, cases):
        return {'case_kinds': dict(collections.Counter(c.split(' ')[0] for c in cases))}

# ---------------------------------------------------------------------------------------------------------
SIZES_Q = [0, 1, 2, 5, 124, 125, 126, 127, 255, 256, 4095, 4096, 65535, 65536, 70000]
SIZES_T = [0, 1, 2, 3, 4, 5, 7, 8, 124, 125, 126, 127, 128, 255, 256, 4095, 4096, 4097, 65534, 65535, 65536, 65537, 70000, 131071, 131072, 131073]

def expected_wire(role, seed, msgs):
    out = b''
    for i, (opc, payload) in enumerate(msgs):
        out += ws.encode_frame(opc, payload, mask=ws.mask_key(seed, i) if role == 'c' else None)
    return out

def msg_op(kind, payload):
    return {'T': 'wt:', 'B': 'wb:', 'PI': 'wpi:', 'PO': 'wpo:'}[kind] + ws.hx(payload)

KOP = {'T': 1, 'B': 2, 'PI': 9, 'PO': 10}

def rand_msgs(rng, sizes, n):
    msgs = []
    for _ in range(n):
        kind = rng.choice(['T', 'B', 'B', 'PI', 'PO'])
        if kind in ('PI', 'PO'):
            size = rng.choice([0, 1, 125])
        else:
            size = rng.choice(sizes)
        payload = bytes(rng.choice(b'abcdefgh') for _ in range(size)) if kind == 'T' else bytes((i * 31 + size) & 255 for i in range(size))
        msgs.append((kind, payload))
    return msgs

def midsize_partial_cases(prefix, k, sizes=(5000, 20000), wbss=(0, 131072)):
    """round j: a 4-20 KiB message of which the transport takes a mid-range part (>= 4096, more than the rest) and then
    refuses; the next operation is another write. Returns case lines (writer side only)."""
    out = []
    for role in 'sc':
        for n1 in sizes:
            flen = gen_e2.frame_size(role, n1)
            p1 = bytes((i * 7 + 3) & 255 for i in range(n1))
            for acc in sorted({4096, 4097, (2 * flen) // 3, flen - 1}):
                if not (0 < acc < flen): continue
                for wbs in wbss:
                    ops = ['wb:' + ws.hx(p1)] + (['f'] if wbs > flen else []) + ['wt:6869', 'wb:' + ws.hx(bytes(range(50))), 'f', 'f', 'f']
                    out.append(ws.scase_line('%s%d' % (prefix, k + len(out)), role, ops, [], ['a:%d' % acc, 'e:wb'], [], wbs=wbs))
    return out

class C01(E2Prop):
    id = 'C01'
    rule = ('writer: message lists (text/binary/ping/pong, payload sizes at 0,125/126,65535/65536 and above the read buffer) x write_buffer_size x accept patterns, wire compared byte-exactly with an '
            'independent encoder; reader (opposite role, accept_unmasked on/off) fed that encoding under whole/drip/random cuts with and without WouldBlock between chunks x read_buffer_size; reads must return exactly the messages')
    level_text = 'writer theorem (wire = concatenated encodings after a successful flush, prefix always) and reader theorem (reads of that encoding return exactly the messages) composed; unbounded in count, sizes, keys, cuts'
    level_note = 'Trusted: Coq kernel, Protocol.v/Codec.v/Header.v/Mask.v, correspondence'
    def generate(self, tier, rng):
        out = []
        sizes = SIZES_Q if tier == 'quick' else SIZES_T
        n = 150 if tier == 'quick' else 1500
        k = 0
        for i in range(n):
            role = 'cs'[i % 2]
            msgs = rand_msgs(rng, sizes if i % 5 == 0 else sizes[:9], rng.randint(1, 6))
            seed = rng.randint(0, 2**32 - 1)
            wbs = rng.choice([0, 1, 10, 600, 131072])
            big = sum(len(p) for _, p in msgs) > 5000
            wr = [] if big else rng.choice([[], ['a:1'] * 3, ['a:7', 'e:wb'], ['e:wb', 'e:wb']])
            ops = [msg_op(kd, p) for kd, p in msgs] + ['f', 'f', 'f']
            out.append(ws.scase_line('w%d' % k, role, ops, [], wr, [], wbs=wbs, seed=seed)); k += 1
            # reader: the peer (opposite role) reads what `role` wrote, encoded independently
            # user pongs go through the pending slot: the last of consecutive pongs wins only if unsent; keep reader on data/ping/pong all
            wire = expected_wire(role, seed, [(KOP[kd], p) for kd, p in msgs])
            rrole = 's' if role == 'c' else 'c'
            for chunks in ([wire], gen_streams.segmentations(rng, wire)[-1]) + (([bytes([b]) for b in wire],) if len(wire) < 400 else ()):
                rbs = rng.choice([0, 1, 2, 5, 14, 64, 4096, 131072])
                rds = []
                wbb = rng.random() < 0.4                      # the transport reports WouldBlock between chunks: the read is simply repeated
                for c in chunks:
                    if c:
                        rds.append('d:' + ws.hx(c))
                        if wbb: rds.append('e:wb')
                out.append(ws.scase_line('r%d' % k, rrole, ['r'] * (len(msgs) + 2 + (len(rds) // 2 if wbb else 0)), rds, [], [], rbs=rbs,
                                         mms=None, mfs=None, au=(k % 3 == 0))); k += 1
        # both directions at once: a Ping arrives, the user writes a Pong with another payload before anything was flushed - the
        # user's message (not the automatic reply it supersedes) is what the peer must read
        for role in 'sc':
            for ping, pong in ((b'', b'x'), (b'ab', b'cd'), (b'p' * 125, b'q' * 125), (b'ab', b'')):
                for extra in ([], ['wt:6869'], ['wb:0001']):
                    ops = ['r', 'wpo:' + ws.hx(pong)] + extra + ['f', 'f']
                    out.append(ws.scase_line('pp%d' % k, role, ops, ['d:' + ws.hx(gen_e2.peer_frame(role, 9, ping))], [], [], seed=rng.randint(0, 2**32 - 1))); k += 1
        for role in 'sc':
            for n_ in ((2**18 + 1,) if tier == 'quick' else (2**18, 2**18 + 1, 2**20 + 3)):
                for wr in (['e:wb'], ['a:10', 'e:wb'], []):
                    out.append(ws.scase_line('g%d' % k, role, ['wb:' + ws.hx(bytes((i * 13) & 255 for i in range(n_))), 'f', 'f', 'wt:6869', 'f'], [], wr, [], wbs=rng.choice([0, 131072]), seed=7)); k += 1
        ms = midsize_partial_cases('mp', k); out += ms; k += len(ms)
        return reid(self.corpus() + out)
    def monitor(self, case_line, trace, mline):
        case, ots = self.parse(case_line, trace)
        if len(case.ops) >= 3 and case.ops[0] == 'r' and case.ops[1].startswith('wpo:') and ots and ots[0].res.startswith('ok:PI:'):
            # ping read, user pong written before any flush: the wire carries the user's pong (then the other user messages), nothing else
            wire, _ = ws.wire_of(ots)
            frames, left = ws.parse_frames(wire)
            want = [(10, ws.unhx(case.ops[1].split(':')[1]))] + [((1 if o.startswith('wt') else 2), ws.unhx(o.split(':')[1])) for o in case.ops[2:] if o[:2] in ('wt', 'wb')]
            got = [(f.opcode, f.payload) for f in frames if f.complete]
            if ots[-1].res == 'ok' and (got != want or left):
                return 'user-pong-lost: after reading a ping the user wrote %r; the wire carries %r' % ([(a, b[:8]) for a, b in want], [(a, b[:8]) for a, b in got])
            return monitors.mon_c09(case, ots)
        if case.ops and case.ops[0].startswith('w') and all(o == 'f' or o[:2] in ('wt', 'wb') or o[:3] in ('wpi', 'wpo') for o in case.ops):
            # writer case: a user pong parks in the slot; consecutive pongs replace each other before being queued
            sent = []
            pend = None
            for op, ot in zip(case.ops, ots):
                fr = monitors.op_frame(case, op)
                if fr is None: continue
                sent.append(fr)
            wire, _ = ws.wire_of(ots)
            exp = expected_wire(case.role, case.seed, sent)
            last_ok = ots[-1].res == 'ok'
            has_pong = any(o.startswith('wpo') for o in case.ops)
            for op, ot in zip(case.ops, ots):
                if op == 'f' and ot.res == 'ok' and 'F:ok' not in ot.events:
                    return 'flush-without-transport-flush: flush() returned Ok without a successful flush of the transport (events: %s)' % ' '.join(ot.events)[:80]
            if not has_pong:
                if not exp.startswith(wire):
                    return 'wire-not-prefix: bytes accepted by the transport are not a prefix of the independently encoded messages'
                if last_ok and wire != exp:
                    return 'flush-ok-incomplete: flush succeeded but %d of %d bytes reached the transport' % (len(wire), len(exp))
            return monitors.mon_c09(case, ots)
        # reader case
        v = compare_reader(case, ots)
        return v

class C09(E2Prop):
    id = 'C09'
    rule = ('all message kinds x payload sizes 0..=300 (exhaustive in thorough) and the boundary set up to 70000 x both roles, plus histories with automatic replies (ping->pong, close->reply, 1005->1002), raw frames with a preset masking key; '
            'every accepted byte stream parsed by an independent frame parser')
    level_text = 'wire ++ out_buffer always parses as complete frames with FIN, RSV=0, right opcode, shortest length, mask iff client with payload XOR key (theorem for all histories and every key sequence); auto replies <= 125 bytes'
    level_note = 'Trusted: Coq kernel, Protocol.v, correspondence; key unpredictability is a property of rand (partial, statistical support test with the hook off)'
    partial = 'fresh unpredictable key: property of rand::random; theorem holds for every key sequence'
    def generate(self, tier, rng):
        out = []; k = 0
        sizes = list(range(0, 301)) if tier == 'thorough' else list(range(0, 301, 7)) + [125, 126, 127]
        for role in 'sc':
            for n in sizes + [4096, 65535, 65536, 70000]:
                for kind in (['T', 'B'] if n > 125 else ['T', 'B', 'PI', 'PO']):
                    payload = b'a' * n if kind == 'T' else bytes((i * 13 + n) & 255 for i in range(n))
                    out.append(ws.scase_line('m%d' % k, role, [msg_op(kind, payload), 'f'], [], [], [], seed=rng.randint(0, 2**32 - 1))); k += 1
        for i in range(800 if tier == 'quick' else 8000):
            out.append(gen_e2.random_history(rng, 'h%d' % i, long=(i % 4 == 0)))
        # raw frames (Message::Frame) that arrive with a masking key already in their header (e.g. relayed from FrameSocket::read):
        # a client must still draw a fresh key for each of them
        for n in (0, 1, 5, 125, 126, 300):
            for opc in (1, 2, 9, 10):
                if opc >= 9 and n > 125: continue
                for preset in ('a1b2c3d4', '00000000', 'ffffffff'):
                    ops = ['wf:1000:%d:%s:%s' % (opc, preset, ws.hx(bytes((i * 7 + n) & 255 for i in range(n)))), 'wt:6869',
                           'wf:1000:2:%s:0102' % preset, 'f']
                    out.append(ws.scase_line('rw%d' % k, 'c', ops, [], [], [], seed=rng.randint(0, 2**32 - 1))); k += 1
        # a pong parked behind a momentarily full buffer is replaced by the Close reply when the peer closes: what goes out is a Close frame
        for role in 'sc':
            for code in (1000, 1005, 3000):
                data = bytes(range(16)); fsz = gen_e2.frame_size(role, 16)
                fr = gen_e2.peer_frame(role, 8, gen_e2.close_payload(code, b'bye'))
                ping = gen_e2.peer_frame(role, 9, b'pp')
                for together in (True, False):
                    rds = ['d:' + ws.hx(ping + fr)] if together else ['d:' + ws.hx(ping), 'd:' + ws.hx(fr)]
                    for mx in (fsz, fsz + 3, fsz + 30):
                        reply = 5 if ws.close_allowed(code) else 20
                        out.append(ws.scase_line('pk%d' % k, role, ['wb:' + ws.hx(data), 'r', 'r', 'f', 'f', 'f', 'f'], rds,
                                                 ['e:wb', 'e:wb', 'e:wb'], [], max_=max(mx, gen_e2.frame_size(role, reply)))); k += 1
        # automatic replies to peer control frames at and around the 125-byte limit
        for role in 'sc':
            for n in (0, 1, 124, 125, 126, 127, 200):
                pf = lambda op, p: gen_e2.peer_frame(role, op, p)
                out.append(ws.scase_line('a%d' % k, role, ['r', 'r', 'f', 'f'], ['d:' + ws.hx(pf(9, b'p' * n))], [], [])); k += 1
                if n >= 2:
                    out.append(ws.scase_line('a%d' % k, role, ['r', 'r', 'f', 'f'], ['d:' + ws.hx(pf(8, gen_e2.close_payload(1000, b'r' * (n - 2))))], [], [])); k += 1
                    out.append(ws.scase_line('a%d' % k, role, ['r', 'r', 'f', 'f'], ['d:' + ws.hx(pf(8, gen_e2.close_payload(1005, b'r' * (n - 2))))], [], [])); k += 1
        ms = midsize_partial_cases('mp', k); out += ms; k += len(ms)
        return reid(self.corpus() + out)
    def monitor(self, case_line, trace, mline):
        case, ots = self.parse(case_line, trace)
        v = monitors.mon_c09(case, ots)
        if v: return v
        # client keys: with an unlimited buffer every key drawn belongs to a queued frame: frame i carries key_i of the hook sequence
        if case.role == 'c' and case.max is None:
            wire, _ = ws.wire_of(ots)
            frames, _ = ws.parse_frames(wire)
            for i, f in enumerate(frames):
                if f.key is not None and f.key != ws.mask_key(case.seed, i):
                    return 'key-sequence: frame %d uses key %s, oracle key is %s' % (i, f.key.hex(), ws.mask_key(case.seed, i).hex())
        return None

def _kv(trace):
    return dict(x.split('=') for x in trace.split(' ') if '=' in x)

def c09_nohook_cases(self, tier):
    n = 4096 if tier == 'quick' else 32768
    return ['KS ks_c c %d' % n, 'KS ks_s s 200']
def c09_nohook_monitor(self, case_line, trace):
    f = case_line.split(' ')
    kv = _kv(trace)
    if not kv or kv.get('hook') != 'false':
        return 'key-stats: hook-off build did not run (%s)' % trace[:60]
    n = int(kv['frames'])
    if f[2] == 'c':
        if int(kv['masked']) != n or int(kv['unmasked']) != 0:
            return 'key-stats: %s of %d client frames masked' % (kv['masked'], n)
        if int(kv['distinct']) < n - 1:
            return 'key-not-fresh: only %s distinct mask keys in %d client frames (real RNG, hook off)' % (kv['distinct'], n)
        if min(int(x) for x in kv['bytevals'].split(',')) <= 200:
            return 'key-not-fresh: a key byte position takes only %s distinct values over %d frames' % (kv['bytevals'], n)
    else:
        if int(kv['masked']) != 0:
            return 'key-stats: server frames masked'
    return None
def c09_source_pin():
    """unpredictability cannot be tested: pin the source of the real mask generator (hook-off body) to rand::random()"""
    import re, os
    path = '/repo/src/protocol/frame/mask.rs'
    try:
        src = open(path).read()
    except OSError:
        return 'mask-source: cannot read ' + path
    m = re.search(r'#\[cfg\(not\(tungstenite_verif\)\)\]\s*(?:#\[inline\]\s*)?pub fn generate_mask\(\) -> \[u8; 4\] \{(.*?)\n\}', src, re.S)
    if not m:
        return 'mask-source: the hook-off generate_mask() was not found in its pinned form'
    body = re.sub(r'//[^\n]*', '', m.group(1)).strip()
    if body != 'rand::random()':
        return 'mask-source: generate_mask() is no longer `rand::random()` (body now: %s): unpredictability of the key is not shown' % body[:80].replace('\n', ' ')
    return None

_orig_c09_nohook_monitor = c09_nohook_monitor
def c09_nohook_monitor2(self, case_line, trace):
    v = _orig_c09_nohook_monitor(self, case_line, trace)
    if v: return v
    if case_line.split(' ')[1] == 'ks_c':
        return c09_source_pin()
    return None
c09_nohook_monitor = c09_nohook_monitor2
C09.nohook_cases = c09_nohook_cases
C09.nohook_monitor = c09_nohook_monitor

class C10(E2Prop):
    id = 'C10'
    rule = ('message sequences x per-call write outcomes: accept k of n for every k on frames <= 12 bytes (exhaustive), random k on larger, WouldBlock runs 0-3 at every call index, '
            'zero-length writes, hard errors x write_buffer_size {0,1,10,600}; 5-20 KiB messages accepted up to 4095/4096/4097/8192/half/two thirds/all-but-1 bytes then refused, followed by further writes, write_buffer_size {0,600,131072}; wire checked against accepted writes by an independent parser')
    level_text = 'invariant wire ++ out_buffer = concat(encode queued) for all histories/oracles; prefix, exactly-once acceptance, flush post-condition, zero-write (theorems)'
    level_note = 'Trusted: Coq kernel, Codec.v/Protocol.v, correspondence'
    def generate(self, tier, rng):
        out = []; k = 0
        for role in 'sc':
            for n in range(0, 7):
                payload = bytes(range(n))
                flen = gen_e2.frame_size(role, n)
                for acc in range(0, flen + 1):
                    for wbs in (0, 1, 10, 600):
                        for wbn in (0, 1, 3):
                            wr = ['e:wb'] * wbn + ['a:%d' % acc] + (['e:wb'] if acc and acc < flen else [])
                            out.append(ws.scase_line('a%d' % k, role, ['wb:' + ws.hx(payload), 'wt:6869', 'f', 'f', 'f'], [], wr, [], wbs=wbs)); k += 1
        for i in range(600 if tier == 'quick' else 10000):
            role = 'cs'[i % 2]
            msgs = rand_msgs(rng, [0, 1, 5, 126, 300, 5000] if i % 8 else [0, 125, 126, 65535, 65536, 65537], rng.randint(1, 5) if i % 8 else rng.randint(1, 2))
            ops = []
            for kd, p in msgs:
                ops.append(msg_op(kd, p))
                if rng.random() < 0.3: ops.append('f')
            ops += ['f', 'f', 'f', 'f']
            wr = [rng.choice(['a:1', 'a:2', 'a:3', 'a:50', 'a:100000', 'e:wb', 'e:wb', 'e:intr']) for _ in range(rng.randint(0, 8))]
            if rng.random() < 0.1: wr.append(rng.choice(['a:0', 'e:other', 'e:reset']))
            fl = [rng.choice(['ok', 'e:wb', 'e:intr', 'e:timedout', 'ok']) for _ in range(rng.randint(0, 3))]
            out.append(ws.scase_line('q%d' % k, role, ops, [], wr, fl, wbs=rng.choice([0, 1, 10, 600]), seed=rng.randint(0, 2**32 - 1))); k += 1
        # payloads above every size gate one could think of (256 KiB, 1 MiB): blocked / partial first write
        for role in 'sc':
            for n_ in ((2**18, 2**18 + 1) if tier == 'quick' else (2**18, 2**18 + 1, 2**20, 2**20 + 7)):
                for wr in (['e:wb'], ['a:10', 'e:wb'], []):
                    out.append(ws.scase_line('g%d' % k, role, ['wb:' + ws.hx(bytes((i * 13) & 255 for i in range(n_))), 'f', 'f', 'wt:6869', 'f'], [], wr, [], wbs=rng.choice([0, 131072]))); k += 1
        # mid-size messages (4-20 KiB) of which the transport takes a mid-range part (around 4096 / 8192, more than half,
        # all but a few bytes) before refusing; the next operation is another write, not a flush (round j: lazy
        # compaction of the out buffer that only triggers for an accepted prefix >= 4096 bytes and longer than the tail)
        for role in 'sc':
            for n1 in ((5000, 9000, 20000) if tier == 'quick' else (4200, 5000, 9000, 12000, 20000, 40000)):
                flen = gen_e2.frame_size(role, n1)
                p1 = bytes((i * 7 + 3) & 255 for i in range(n1))
                for acc in sorted({4095, 4096, 4097, flen // 2, flen // 2 + 1, (2 * flen) // 3, 8192, flen - 10, flen - 1}):
                    if not (0 < acc < flen): continue
                    for wbs in (0, 600, 131072):
                        for second in (['wt:6869'], ['wb:' + ws.hx(bytes(range(200))), 'wt:6869']):
                            ops = ['wb:' + ws.hx(p1)] + (['f'] if wbs > flen else []) + second + ['f', 'f', 'f']
                            out.append(ws.scase_line('m%d' % k, role, ops, [], ['a:%d' % acc, 'e:wb'], [], wbs=wbs)); k += 1
                    # two partial rounds: accept, block, accept a little more, block again
                    ops = ['wb:' + ws.hx(p1), 'wt:6869', 'wb:' + ws.hx(bytes(range(50))), 'f', 'f', 'f']
                    out.append(ws.scase_line('m%d' % k, role, ops, [], ['a:%d' % acc, 'e:wb', 'a:7', 'e:wb'], [], wbs=0)); k += 1
        for i in range(300 if tier == 'quick' else 4000):
            role = 'cs'[i % 2]
            sizes = [rng.choice([0, 1, 5, 20]) for _ in range(rng.randint(2, 6))]
            ops = []
            for n_ in sizes:
                ops.append('wb:' + ws.hx(bytes(range(n_))))
            ops += ['f', 'f', 'f', 'f']
            largest = max(gen_e2.frame_size(role, n_) for n_ in sizes)
            total = sum(gen_e2.frame_size(role, n_) for n_ in sizes)
            mx = rng.choice([largest, largest + 1, largest + 5, total - 1, total])
            wr = ['e:wb'] * rng.randint(1, len(sizes) + 1)
            out.append(ws.scase_line('t%d' % k, role, ops, [], wr, [], wbs=rng.choice([0, 1]), max_=max(mx, 2), seed=rng.randint(0, 2**32 - 1))); k += 1
        return reid(self.corpus() + out)
    def monitor(self, case_line, trace, mline):
        case, ots = self.parse(case_line, trace)
        v = monitors.mon_c10(case, ots) or monitors.mon_c09(case, ots)
        if v: return v
        # zero-length write: reported as reset, never spins
        for ot in ots:
            zero = [e for e in ot.events if e.startswith('W:') and e.split(':')[2] == '-']
            if len(zero) > 1:
                return 'zero-write-spin: more than one zero-length write in one call'
            if zero and ot.res not in ('err:io:reset', 'err:closed'):
                return 'zero-write-not-reset: zero-length write reported as %s' % ot.res
        return None

class C11(E2Prop):
    id = 'C11'
    rule = ('ping sequences (payloads 0, 2, 3, 124, 125 bytes; 1-4 pings, several per segment) interleaved with data and user pongs x all read/write/flush patterns up to length 5 (sampled in quick) x WouldBlock on any write or flush, both roles, unlimited buffer; automatic pong already buffered behind a blocked transport when the user writes a pong/text, then read-only or flush-only tails; finite max_write_buffer_size with the pong parked behind a full buffer')
    level_text = 'pong pending-until-sent invariant, order/no-invention, sent by the next successful call, WouldBlock postpones (theorems over all histories)'
    level_note = 'Trusted: Coq kernel, Protocol.v, correspondence'
    def generate(self, tier, rng):
        out = []; k = 0
        uops = ['r', 'wt:6869', 'wpo:71', 'f']
        ptoks = ['PI', 'PI0', 'PI2', 'PIT', 'PI125', 'PI124', 'PI3', 'T', 'WB']
        for L in (2, 3, 4):
            allc = []
            for role in 'sc':
                for ops in itertools.product(uops, repeat=L):
                    nr = sum(1 for o in ops if o == 'r')
                    if nr == 0: continue
                    for peer in itertools.product(ptoks, repeat=nr):
                        if not any(p.startswith('PI') for p in peer): continue
                        for wpat in ('accept', 'wb1', 'wb2'):
                            for fpat in ('ok', 'fwb1'):
                                allc.append((role, ops, peer, wpat, fpat))
            if tier == 'quick' and len(allc) > 1500:
                allc = rng.sample(allc, 1500)
            elif len(allc) > 120000:
                allc = rng.sample(allc, 120000)
            for role, ops, peer, wpat, fpat in allc:
                out.append(gen_e2.history('p%d' % k, role, ops, peer, wpat, fpat, 0, None, tail=1)); k += 1
        for i in range(500 if tier == 'quick' else 5000):
            out.append(gen_e2.random_history(rng, 'h%d' % i, tight_prob=0.0))
        # the automatic pong is already in the write buffer (its first transport write blocked) when the user writes a pong of
        # their own on the still-blocked transport; afterwards only reads (or only flushes): both pongs must reach the wire
        for role in 'sc':
            for ping in (b'', b'ab', b'p' * 125):
                pf = gen_e2.peer_frame(role, 9, ping)
                for nblock in (2, 3, 4):
                    for mid in (['wpo:71'], ['wpo:71', 'wpo:72'], ['wt:6869'], ['wpo:71', 'wt:6869']):
                        for tail_op in ('r', 'f'):
                            for fl in ([], ['e:wb']):
                                ops = ['r', 'r'] + mid + [tail_op] * 5
                                out.append(ws.scase_line('u%d' % k, role, ops, ['d:' + ws.hx(pf)], ['e:wb'] * nblock + ['a:100000'] * 8, fl + ['ok'] * 10)); k += 1
        # finite max_write_buffer_size: data stuck behind a blocked transport fills the buffer, the pong of a ping read meanwhile does
        # not fit and stays parked; the transport recovers and the user only reads (or only flushes): the pong must still go out
        for role in 'sc':
            for dlen in (16, 40):
                fsz = gen_e2.frame_size(role, dlen)
                for ping in (b'', b'ab', b'p' * 30):
                    pf = gen_e2.peer_frame(role, 9, ping)
                    for mx in (fsz, fsz + 1, fsz + 3, max(fsz + 3, gen_e2.frame_size(role, len(ping)))):
                        if mx < gen_e2.frame_size(role, len(ping)):      # precondition of the property: the largest single frame fits
                            mx = gen_e2.frame_size(role, len(ping))
                        for nblock in (2, 3, 4):
                            for tail_op in ('r', 'f'):
                                ops = ['wb:' + ws.hx(bytes(range(dlen))), 'r', 'r'] + [tail_op] * 5
                                out.append(ws.scase_line('q%d' % k, role, ops, ['d:' + ws.hx(pf)], ['e:wb'] * nblock + ['a:100000'] * 8, [], max_=mx)); k += 1
                                # reading continues meanwhile: a data frame that arrived behind the ping is delivered although the pong is parked
                                tf = gen_e2.peer_frame(role, 1, b'next')
                                ops = ['wb:' + ws.hx(bytes(range(dlen))), 'r', 'r', 'r'] + [tail_op] * 5
                                out.append(ws.scase_line('q%d' % k, role, ops, ['d:' + ws.hx(pf + tf)], ['e:wb'] * (nblock + 2) + ['a:100000'] * 8, [], max_=mx)); k += 1
                                # a second ping is read while the first pong is still parked: the newer pong replaces it and must go out
                                pf2 = gen_e2.peer_frame(role, 9, ping + b'2')
                                mx2 = max(mx, gen_e2.frame_size(role, len(ping) + 1))
                                ops = ['wb:' + ws.hx(bytes(range(dlen))), 'r', 'r', 'r'] + [tail_op] * 5
                                out.append(ws.scase_line('q%d' % k, role, ops, ['d:' + ws.hx(pf), 'd:' + ws.hx(pf2)], ['e:wb'] * (nblock + 1) + ['a:100000'] * 8, [], max_=mx2)); k += 1
        return reid(self.corpus() + out)
    def monitor(self, case_line, trace, mline):
        case, ots = self.parse(case_line, trace)
        v = monitors.mon_c11(case, ots) or monitors.mon_c11_sent(case, ots)
        if v or case.max is None:
            return v
        tail = 0
        for o in reversed(case.ops):
            if o == case.ops[-1] and o in ('f', 'r'): tail += 1
            else: break
        w = monitors.mon_c13(case, ots, tail if tail >= 3 else 0)
        return w if w and w.startswith('pong-lost') else None

class C12(E2Prop):
    id = 'C12'
    rule = ('all 65536 status codes x reasons {empty, "x", 123 bytes} (thorough: exhaustive; quick: every code with one reason) x state when the Close arrives {active, closed-by-us} x pending pong or not x both roles; reply blocked at read and at an explicit flush/close, then read-only or flush-only tails')
    level_text = 'reply = reported (own code if allowed, else 1002), exactly one Close, never displaced by a pong, acknowledgement unchanged and unanswered (theorems for all codes/reasons/states)'
    level_note = 'Trusted: Coq kernel, Protocol.v/Coding.v/Frame.v, correspondence (exhaustive over codes)'
    def exhaustive(self, tier):
        return True
    def generate(self, tier, rng):
        out = []; k = 0
        reasons = [b'', b'x', b'r' * 123]
        for code in range(65536):
            rs = reasons if tier == 'thorough' else [reasons[code % 3]]
            for reason in rs:
                role = 'sc'[code % 2]
                variant = (code // 2) % 4
                fr = gen_e2.peer_frame(role, 8, gen_e2.close_payload(code, reason))
                ping = gen_e2.peer_frame(role, 9, b'pp')
                if variant == 0:
                    ops, rds = ['r', 'f', 'f'], ['d:' + ws.hx(fr)]
                elif variant == 1:
                    ops, rds = ['c:1000:6279', 'r', 'f'], ['d:' + ws.hx(fr)]
                elif variant == 2:
                    ops, rds = ['r', 'r', 'f', 'f'], ['d:' + ws.hx(ping + fr)]      # pong pending when the Close arrives
                else:
                    ops, rds = ['r', 'f'], ['d:' + ws.hx(fr)]
                wr = ['e:wb'] if code % 5 == 0 else []
                out.append(ws.scase_line('c%d' % k, role, ops + ['f'], rds, wr, [])); k += 1
        for tok in ('CE',):
            for role in 'sc':
                out.append(gen_e2.history('e%d' % k, role, ['r', 'f', 'f'], [tok])); k += 1
        # pending pong still parked when the Close arrives: momentarily full buffer on a blocked transport
        for role in 'sc':
            for code in (1000, 1005, 3000, 4999, 0, 999, 2999, 5000):
                for reason in (b'', b'bye'):
                    data = bytes(range(16))
                    fsz = gen_e2.frame_size(role, 16)
                    fr = gen_e2.peer_frame(role, 8, gen_e2.close_payload(code, reason))
                    ping = gen_e2.peer_frame(role, 9, b'pp')
                    for together in (True, False):
                        rds = ['d:' + ws.hx(ping + fr)] if together else ['d:' + ws.hx(ping), 'd:' + ws.hx(fr)]
                        for mx in (fsz, fsz + 3, fsz + 30):
                            # the property's precondition: max holds the largest single frame of the history (here the reply)
                            reply = (2 + len(reason)) if ws.close_allowed(code) else 20
                            out.append(ws.scase_line('t%d' % k, role, ['wb:' + ws.hx(data), 'r', 'r', 'f', 'f', 'f', 'f'], rds,
                                                     ['e:wb', 'e:wb', 'e:wb'], [], max_=max(mx, gen_e2.frame_size(role, reply)))); k += 1
        # the reply is blocked when read queues it, an explicit flush/close is blocked too, then only reads (or only flushes) follow:
        # the one reply must still reach the wire once the transport accepts
        for role in 'sc':
            for code, reason in ((1000, b''), (1000, b'bye'), (1005, b''), (3000, b'x' * 123), (None, b'')):
                fr = gen_e2.peer_frame(role, 8, gen_e2.close_payload(code, reason) if code is not None else b'')
                for mid in (['f'], ['c:-'], ['f', 'c:-'], ['c:1000:6279'], ['f', 'f']):
                    for nblock in (1, 2, 3):
                        for tail_op in ('r', 'f'):
                            for fl in ([], ['e:wb'], ['e:wb', 'e:wb']):
                                ops = ['r'] + mid + [tail_op] * 5
                                out.append(ws.scase_line('b%d' % k, role, ops, ['d:' + ws.hx(fr)], ['e:wb'] * nblock + ['a:100000'] * 6, fl + ['ok'] * 8)); k += 1
                                if nblock == 1:
                                    # the transport takes the first 1-3 bytes of the reply, then blocks: the retry sends the REST, not the whole frame again
                                    for part in (1, 2, 3):
                                        out.append(ws.scase_line('b%d' % k, role, ops, ['d:' + ws.hx(fr)], ['a:%d' % part, 'e:wb', 'a:1', 'e:wb'] + ['a:100000'] * 6, fl + ['ok'] * 8)); k += 1
        return reid(self.corpus() + out)
    def monitor(self, case_line, trace, mline):
        case, ots = self.parse(case_line, trace)
        v = monitors.mon_c12(case, ots)
        if v: return v
        # what read reports: the peer's own code/reason if allowed, else 1002
        inbound = ws.inbound_of(case, ots)
        frames, _ = ws.parse_frames(inbound)
        closes = [f for f in frames if f.opcode == 8 and f.complete]
        vw = monitors.View(case, ots)
        if closes and vw.close_recv_at is not None:
            p = closes[0].payload
            rep = ots[vw.close_recv_at].res[5:]
            acked = vw.user_close_at is not None and vw.user_close_at < vw.close_recv_at
            if len(p) == 0:
                exp = '-'
            else:
                code = (p[0] << 8) | p[1]
                if acked or ws.close_allowed(code):
                    exp = '%d:%s' % (code, ws.hx(p[2:]))
                else:
                    exp = '1002:' + ws.hx(b'Protocol violation')
            if rep != exp:
                return 'reported-close: peer sent Close(%s), read reported Close(%s), expected Close(%s)' % (ws.hx(p)[:20], rep[:40], exp[:40])
        return None
    def nontrivial_key(self, case_line, trace):
        return hash(case_line.split(' ', 2)[2])

class C14(E2Prop):
    id = 'C14'
    impl_only_kinds = ('EP',)
    rule = ('(write_buffer_size, max_write_buffer_size) over {0,1,2,9,10,11,12,20,600}^2 with max > wbs x message sizes 0..=12 x refusal windows (all-or-nothing and partial acceptance followed by WouldBlock; partial flush of a batch under write_buffer_size 50/100/600 followed by small writes) x ping floods while blocked; '
            'WriteBufferFull decisions recomputed independently from sizes and accepted bytes')
    level_text = 'invariant |out_buffer| <= max (+ one pending control frame), WriteBufferFull hands the frame back and queues nothing, retry succeeds with room, batching threshold and eager mode (theorems)'
    level_note = 'Trusted: Coq kernel, Codec.v/Protocol.v, correspondence'
    def generate(self, tier, rng):
        out = []; k = 0
        vals = [0, 1, 2, 9, 10, 11, 12, 20, 600]
        pairs = [(w, m) for w in vals for m in vals if m > w]
        for wbs, mx in pairs:
            for role in 'sc':
                for n in (range(0, 13) if tier == 'thorough' else (0, 1, 5, 6, 7, 8, 12)):
                    if gen_e2.frame_size(role, n) > mx: continue
                    for wpat in ('accept', 'wb2', 'wb4', 'one'):
                        p = ws.hx(bytes(range(n)))
                        ops = ['wb:' + p, 'wb:' + p, 'wt:6869', 'wb:' + p, 'f', 'wb:' + p, 'f', 'f', 'f', 'f']
                        out.append(gen_e2.history('b%d' % k, role, ops, [], wpat, 'ok', wbs, mx)); k += 1
                # ping flood while blocked
                ops = ['r'] * 6 + ['wt:6869', 'f', 'f', 'f']
                out.append(gen_e2.history('f%d' % k, role, ops, ['PI', 'PI2', 'PI', 'PI0', 'PI', 'T'], 'wb8', 'ok', wbs, max(mx, gen_e2.frame_size(role, 4)))); k += 1
        for i in range(500 if tier == 'quick' else 6000):
            out.append(gen_e2.random_history(rng, 'h%d' % i, tight_prob=0.8))
        # the fullness test at the length-encoding boundaries: Frame::len must count exactly what gets buffered
        for role in 'sc':
            for n in (124, 125, 126, 127, 65535, 65536):
                true_size = gen_e2.frame_size(role, n)
                first = gen_e2.frame_size(role, 3)
                for d in (-2, -1, 0, 1, 2, 3):
                    mx = first + true_size - d
                    ops = ['wb:000102', 'wb:' + ws.hx(bytes((i * 7) & 255 for i in range(n))), 'f', 'f', 'f']
                    out.append(gen_e2.history('e%d' % k, role, ops, [], 'wb2', 'ok', 0, max(mx, true_size))); k += 1
        # the transport takes PART of the buffered bytes and then blocks: only the unsent remainder counts against the bound, so a
        # message that fits in the room really freed must be accepted (and one that does not, refused)
        for role in 'sc':
            for n in (10, 30):
                a = gen_e2.frame_size(role, n)
                for kacc in (1, a // 2, a - 1):
                    for slack in (0, 1, 5):
                        mx = a + slack
                        for m in (0, 1, 4, 8):
                            b = gen_e2.frame_size(role, m)
                            ops = ['wb:' + ws.hx(bytes(range(n))), 'wb:' + ws.hx(bytes(range(m))), 'wb:' + ws.hx(bytes(range(m))), 'f', 'f', 'f']
                            out.append(ws.scase_line('pa%d' % k, role, ops, [], ['a:%d' % kacc, 'e:wb', 'e:wb', 'e:wb', 'a:100000', 'a:100000', 'a:100000'], [], wbs=0, max_=max(mx, b))); k += 1
        # batching after a PARTIAL flush: the transport took up to half of a batch and then refused; the unsent remainder is at
        # or below write_buffer_size again, so further small writes must not touch the transport (round j: threshold
        # compared with a buffer length that still counted the already-sent prefix)
        for role in 'sc':
            for wbs in (50, 100, 600):
                n = (wbs * 3) // 5
                fsz = gen_e2.frame_size(role, n); total = 2 * fsz
                for acc in sorted({1, total // 4, total // 2 - 1, total // 2, total - wbs, total - wbs + 1, total - 1}):
                    if not (0 < acc < total): continue
                    for small in (0, 5, 12):
                        p_ = ws.hx(bytes(i & 255 for i in range(n)))
                        ops = ['wb:' + p_, 'wb:' + p_, 'wb:' + ws.hx(bytes(range(small))), 'wt:6869', 'f', 'wb:' + ws.hx(bytes(range(small))), 'f', 'f']
                        out.append(ws.scase_line('pb%d' % k, role, ops, [], ['a:%d' % acc, 'e:wb'] + ['a:100000'] * 8, [], wbs=wbs)); k += 1
                        out.append(ws.scase_line('pb%d' % k, role, ops, [], ['a:%d' % acc, 'e:wb'] + ['a:100000'] * 8, [], wbs=wbs, max_=4 * total)); k += 1
        # sockets built by from_partially_read with leftover bytes (a frame glued to the handshake) obey the configured sizes like any other
        for role in 'sc':
            lead = gen_e2.peer_frame(role, 1, b'ok')
            for wbs, mx in ((0, 12), (0, 20), (10, 20), (20, 600), (9, 11)):
                for n in (0, 5, 8):
                    if gen_e2.frame_size(role, n) > mx: continue
                    for wpat in (['e:wb'] * 4 + ['a:100000'] * 6, ['a:100000'] * 10):
                        p_ = ws.hx(bytes(range(n)))
                        ops = ['r', 'wb:' + p_, 'wb:' + p_, 'wt:6869', 'wb:' + p_, 'f', 'wb:' + p_, 'f', 'f']
                        out.append(ws.scase_line('fp%d' % k, role, ops, [], wpat, [], wbs=wbs, max_=mx, pre=lead)); k += 1
        # set_config changes both sizes at run time: the new bound must be the one enforced
        for role in 'sc':
            fs = gen_e2.frame_size(role, 4)
            for (m0, m1) in ((fs, 3 * fs), (3 * fs, fs + 1), (fs + 2, None), (None, 2 * fs), (2 * fs, 2 * fs + 1), (40, 12 + fs)):
                for wpat in ('wb8', 'accept', 'wb2'):
                    for pos in (0, 1, 2):
                        ops = ['wb:00010203'] * 5
                        ops.insert(pos, 'sb:0:%s' % ('inf' if m1 is None else m1))
                        ops += ['f', 'wb:00010203', 'f']
                        out.append(gen_e2.history('s%d' % k, role, ops, [], wpat, 'ok', 0, m0)); k += 1
        # set_config changing write_buffer_size at run time: batching must follow the new threshold
        for role in 'sc':
            for w0, w1 in ((0, 50), (50, 0), (10, 100), (100, 10)):
                ops = ['wt:6161', 'sb:%d:inf' % w1, 'wt:6262', 'wt:6363', 'wb:' + ws.hx(bytes(range(60))), 'f', 'wt:6464', 'f']
                for wpat in ('accept', 'wb2'):
                    out.append(gen_e2.history('w%d' % k, role, ops, [], wpat, 'ok', w0, None)); k += 1
        # batching after the connection went through automatic replies under a blocked transport
        for role in 'sc':
            for wbs in (10, 100, 600):
                for wpat in ('accept', 'wb1', 'wb2', 'wb3'):
                    for fpat in ('ok', 'fwb1', 'fwb2'):
                        for pre in (['r'], ['r', 'r'], ['r', 'f'], ['r', 'wt:6869'], []):
                            ops = pre + ['f', 'f', 'f', 'wt:61', 'wt:62', 'wb:00', 'f', 'wt:63']
                            out.append(gen_e2.history('q%d' % k, role, ops, ['PI'] * sum(1 for o in pre if o == 'r'), wpat, fpat, wbs, None)); k += 1
        return reid(self.corpus() + out) + ['EP ep0']
    def monitor(self, case_line, trace, mline):
        if case_line.startswith('EP '):
            bad = [x for x in trace.split(' ') if x.endswith('=BAD')]
            return ('config-plumbing: ' + ','.join(bad)) if bad or not trace else None
        case, ots = self.parse(case_line, trace)
        v = monitors.mon_c14(case, ots)
        if v: return v
        return monitors.mon_c14_bound(case, ots) or monitors.mon_c14_batching(case, ots) or monitors.mon_c14_full_exact(case, ots)

class C07(E2Prop):
    id = 'C07'
    props_files = ['C07', 'C07hs', 'C07cfg']
    debug_in_quick = True      # overflow checks / debug_assert! are this property's subject: the debug build runs in every tier
    rule = ('socket: random byte streams, mutated valid streams, boundary-crafted headers x per-call outcomes {n bytes, 0, WouldBlock, Interrupted, reset, other} on read/write/flush x roles x finite limits, plus all history generators; '
            'handshake: valid/invalid/endless heads x the same outcome kinds incl. zero-length writes; every case under catch_unwind; monitor: no panic, no out-of-fuel, bounded transport calls')
    level_text = 'no modelled call returns Panic or OutOfFuel for any op list and any oracle (socket, finite limits; also with set_config installing arbitrary valid configurations mid-history, C07cfg) and any handshake round sequence (both roles); overflow sites unreachable below 2^63; panics inside dependencies are outside the model (catch_unwind support test)'
    level_note = 'Trusted: Coq kernel, all model files; internals of httparse/http/bytes/sha1/std are not modelled'
    partial = 'panics or loops inside dependencies (httparse, http, bytes, sha1, data-encoding, rand, std) are not modelled; every case runs under catch_unwind as a supporting test'
    def generate(self, tier, rng):
        from .hs import C17
        out = []
        n = 1200 if tier == 'quick' else 15000
        for i in range(n):
            role = rng.choice('sc')
            r = rng.random()
            if r < 0.3:
                data = bytes(rng.randrange(256) for _ in range(rng.randint(0, 40)))
            elif r < 0.7:
                data = bytearray(b''.join(gen_streams.stream_case(rng)['frames']))
                for _ in range(rng.randint(0, 3)):
                    if data: data[rng.randrange(len(data))] = rng.randrange(256)
                data = bytes(data)
            else:
                b0 = rng.choice([0x81, 0x82, 0x88, 0x89, 0x8a, 0x01, 0x00, 0x80, 0xf1, 0x83, 0x8b])
                l7 = rng.choice([0, 1, 125, 126, 127])
                n_ = rng.choice([0, 1, 125, 126, 65535, 65536, 2**32, 2**63 - 1, 2**63, 2**64 - 1])
                ext = b'' if l7 < 126 else (n_ % 65536).to_bytes(2, 'big') if l7 == 126 else n_.to_bytes(8, 'big')
                m = rng.choice([0, 0x80])
                data = bytes([b0, m | l7]) + ext + (b'\x01\x02\x03\x04' if m else b'') + bytes(rng.randrange(256) for _ in range(rng.randint(0, 10)))
            chunks = rng.choice(gen_streams.segmentations(rng, data)) if data else []
            rds = []
            for c in chunks:
                rds.append('d:' + ws.hx(c))
                if rng.random() < 0.3: rds.append(rng.choice(['e:wb', 'e:intr', 'e:wb']))
            rds.append(rng.choice(['eof', 'e:reset', 'e:other', 'e:wb']))
            ops = [rng.choice(['r', 'r', 'r', 'f', 'wt:6869', 'wpi:70', 'c:-', 'wf:1111:3:-:00', 'wf:0000:0:01020304:aabb']) for _ in range(rng.randint(2, 10))]
            wr = [rng.choice(['a:0', 'a:1', 'a:5', 'e:wb', 'e:intr', 'e:reset', 'e:other']) for _ in range(rng.randint(0, 5))]
            fl = [rng.choice(['ok', 'e:wb', 'e:intr', 'e:other']) for _ in range(rng.randint(0, 3))]
            out.append(ws.scase_line('x%d' % i, role, ops, rds, wr, fl, wbs=rng.choice([0, 10]), max_=rng.choice([None, 40]),
                                     mms=rng.choice([0, 10, 1000, 1 << 20]), mfs=rng.choice([0, 10, 1000, 1 << 20]), au=rng.random() < 0.3,
                                     rbs=rng.choice([0, 1, 7, 4096])))
        for i in range(300 if tier == 'quick' else 3000):
            out.append(gen_e2.random_history(rng, 'h%d' % i, long=True))
        for role in 'sc':
            for lower in (1, 5, 9, 30):
                for wpat in ('wb8', 'wb2', 'accept'):
                    out.append(gen_e2.history('z', role, ['wb:000102030405', 'wb:0a0b', 'sb:0:%d' % lower, 'wb:0c', 'wt:6869', 'f', 'sb:0:inf', 'wb:0d', 'f', 'f'], [], wpat, 'ok', 0, 200))
        for role in 'sc':
            data = b''.join(gen_streams.stream_case(rng)['frames']) + gen_e2.peer_frame(role, 2, b'x' * 40)
            for rbs in (0, 1, 5, 8, 16):
                for pre in (1, 6, 9, 17, 40, len(data)):
                    out.append(ws.scase_line('z', role, ['r', 'r', 'r'], ['d:' + ws.hx(data[pre:])] if data[pre:] else [], [], [], rbs=rbs, pre=data[:pre], mms=1000, mfs=1000))
        for role in 'sc':
            for n_ in (11, 2**16, 2**32, 2**63 - 1, 2**63, 2**64 - 1):
                for mfs in (0, 10, 1000):
                    hdr = bytes([0x82, (0x80 if role == 's' else 0) | 127]) + n_.to_bytes(8, 'big') + (b'\x01\x02\x03\x04' if role == 's' else b'')
                    for tailb in (b'', b'abcdefghijkl'):
                        out.append(ws.scase_line('z', role, ['r', 'r', 'r', 'f', 'r'], ['d:' + ws.hx(hdr + tailb)], [], [], mms=1000, mfs=mfs, rbs=rng.choice([0, 7, 4096])))
        out = reid(self.corpus() + out)
        out += limit_change_cases(rng, 80 if tier == 'quick' else 800)
        from .. import gen_hs
        good_req = gen_hs.request_bytes(gen_hs.REQUIRED)
        good_resp = gen_hs.response_bytes([(b'Upgrade', b'websocket'), (b'Connection', b'Upgrade'), (b'Sec-WebSocket-Accept', gen_hs.ACCEPT_MARK)])
        for i in range(150 if tier == 'quick' else 3000):
            m_ = gen_hs.mutate_head(rng, good_req)
            if rng.random() < 0.3: m_ = gen_hs.mutate_head(rng, m_)
            out.append(gen_hs.hs_case('mq%d' % i, rng.choice(gen_hs.CALLBACKS), ['r'], gen_hs.rds_of(gen_hs.segment(rng, m_, rng.choice([1, 1, 3]))), [], []))
            m2 = gen_hs.mutate_head(rng, good_resp)
            out.append(gen_hs.hc_case('mr%d' % i, b'ws://example.com/', ops=['r'], rds=gen_hs.rds_of(gen_hs.segment(rng, m2, rng.choice([1, 1, 3])))))
        # a bound too small for the automatic reply (the property's "any configuration"): the reply can never be queued, and read()
        # must keep answering (WouldBlock / messages), not spin re-flushing
        for role in 'sc':
            for mx in (1, 2, 8, 16):
                for n_ in (0, 15, 60, 125):
                    pf_ = gen_e2.peer_frame(role, 9, b'p' * n_)
                    tf_ = gen_e2.peer_frame(role, 1, b'ok')
                    for wr in ([], ['a:100000'] * 6, ['e:wb'] * 3):
                        out.append(ws.scase_line('tiny%d' % len(out), role, ['r', 'r', 'r', 'f', 'r'], ['d:' + ws.hx(pf_ + tf_)], wr, [], wbs=0, max_=mx))
                    cf_ = gen_e2.peer_frame(role, 8, gen_e2.close_payload(1000, b'r' * min(n_, 123)))
                    out.append(ws.scase_line('tiny%d' % len(out), role, ['r', 'r', 'r', 'f'], ['d:' + ws.hx(cf_)], ['a:100000'] * 6, [], wbs=0, max_=mx))
        # one message in thousands of one-byte fragments, all available to a single read(): stack use must not grow with the input
        for role in 'sc':
            nfr = 40000
            frs = [gen_e2.peer_frame(role, 2 if i == 0 else 0, b'z', fin=(i == nfr - 1)) for i in range(nfr)]
            out.append('SN' + ws.scase_line('deep%s' % role, role, ['r', 'r'], ['d:' + ws.hx(b''.join(frs))], [], [], mms=100000)[1:])
        # handshake half: reuse the C17 generator (heads x transport outcomes) with unique ids
        hs = C17().generate(tier, rng)
        for k, c in enumerate(hs):
            if c.startswith('RB '):
                # ReadBuffer::advance past the end is the documented panic of bytes::Buf::advance on API misuse (the handshake
                # machine only advances by what the parser consumed): C17b states it explicitly, it is not a C07 matter
                continue
            f = c.split(' '); f[1] = 'hs%d' % k; out.append(' '.join(f))
        return out
    impl_only_kinds = ('TP', 'SN')
    model_only_kinds = ('AC',)
    def model_monitor(self, case_line, mtrace):
        return None
    def monitor(self, case_line, trace, mline):
        if 'panic' in trace:
            return 'panic: a call panicked: %s' % trace[:100]
        if 'outoffuel' in trace:
            return 'outoffuel: model fuel exhausted'
        if case_line.startswith('S '):
            # bounded work: a call makes no more transport reads than there are scripted outcomes + 1 per call
            case, ots = self.parse(case_line, trace)
            v = monitors.mon_emptybuf(ots)
            if v: return v
            for ot in ots:
                if len(ot.events) > 3 * (len(case.rds) + len(case.wrs) + len(case.fls)) + 50:
                    return 'unbounded-work: one call made %d transport calls' % len(ot.events)
        return None
    def nontrivial_key(self, case_line, trace):
        return hash(trace + case_line[:50])
    def distribution(self, cases):
        return {'case_kinds': dict(collections.Counter(c.split(' ')[0] for c in cases))}
