#!/bin/bash
# usage: tools/seedtest.sh <name> <mutout-dir> <prop> [more props...]
# 1. verifies the seeded change in a scratch worktree (demo fails with / passes without, suite unchanged)
# 2. applies it to /repo, runs the given checks (quick), restores /repo and the evidence files
# 3. stores it under /verif/seeded/<name>/ with the outcome
set -u
name=$1; src=$2; shift 2
props="$@"
out=/verif/seeded/$name
mkdir -p $out
cp $src/patch.diff $src/seeded_demo.rs $out/ 2>/dev/null
cp $src/meta.json $out/meta_agent.json 2>/dev/null
if [ -n "${SKIPVERIFY:-}" ] && [ -f $out/meta.json ]; then
  # already verified earlier: only re-run the checks and update the outcome
  mkdir -p /tmp/evsave_$name && cp /verif/evidence/*.json /tmp/evsave_$name/ 2>/dev/null
  git -C /repo apply $out/patch.diff
  results=""
  for p in $props; do
    ( cd /verif && timeout 1800 ./check $p --tier quick > $out/check_$p.log 2>&1 ); rc=$?
    v=$(grep -m1 "^VIOLATION" $out/check_$p.log | cut -c1-200)
    results="$results\"$p\": {\"exit\": $rc, \"line\": \"$(echo $v | sed 's/"/\\"/g')\"}, "
  done
  git -C /repo checkout -- .
  cp /tmp/evsave_$name/*.json /verif/evidence/ 2>/dev/null; rm -rf /tmp/evsave_$name
  python3 - <<PY
import json
o='$out'
meta=json.load(open(o+'/meta.json'))
res=json.loads('{'+'''$results'''.rstrip(', ')+'}')
meta['checks_run_against_it'].update(res)
json.dump(meta,open(o+'/meta.json','w'),indent=1)
print(json.dumps(res))
PY
  exit 0
fi
wt=/tmp/sv_$name
git -C /repo worktree remove --force $wt 2>/dev/null
git -C /repo worktree add --detach $wt HEAD >/dev/null 2>&1
cp $src/seeded_demo.rs $wt/tests/seeded_demo.rs
( cd $wt && cargo test --offline --test seeded_demo >$out/demo_without.log 2>&1 ); rc_without=$?
( cd $wt && git apply $src/patch.diff && cargo test --offline --test seeded_demo >$out/demo_with.log 2>&1 ); rc_with=$?
( cd $wt && cargo test --offline --no-fail-fast >$out/suite_with.log 2>&1 )
suite_pass=$(grep -c "^test .* ok$" $out/suite_with.log)
suite_fail=$(grep "^test .* FAILED$" $out/suite_with.log | grep -v seeded_demo | wc -l)
git -C /repo worktree remove --force $wt
# run the checks against the change
mkdir -p /tmp/evsave_$name && cp /verif/evidence/*.json /tmp/evsave_$name/ 2>/dev/null
git -C /repo apply $src/patch.diff
results=""
for p in $props; do
  ( cd /verif && timeout 1800 ./check $p --tier quick > $out/check_$p.log 2>&1 ); rc=$?
  v=$(grep -m1 "^VIOLATION" $out/check_$p.log | cut -c1-200)
  results="$results\"$p\": {\"exit\": $rc, \"line\": \"$(echo $v | sed 's/"/\\"/g')\"}, "
done
git -C /repo checkout -- .
cp /tmp/evsave_$name/*.json /verif/evidence/ 2>/dev/null; rm -rf /tmp/evsave_$name
python3 - <<PY
import json,os
o='$out'
try: agent=json.load(open(o+'/meta_agent.json'))
except Exception: agent={}
res=json.loads('{'+'''$results'''.rstrip(', ')+'}')
meta={'id':'$name','property':agent.get('property'),'what':agent.get('what'),'needs':agent.get('needs'),
 'verified':{'demo_passes_without_change': $rc_without==0,'demo_fails_with_change': $rc_with!=0,'suite_tests_ok_with_change': $suite_pass,'suite_other_failures_with_change': $suite_fail},
 'checks_run_against_it':res,'ran':'tools/seedtest.sh $name $src $props'}
json.dump(meta,open(o+'/meta.json','w'),indent=1)
print(json.dumps(meta['verified']), json.dumps(res))
PY
rm -f $out/meta_agent.json
