"""Cross-check of extraction: a sample of socket cases is evaluated INSIDE Coq (vm_compute of Digest.run_digest) and the
digest compared with the one the extracted OCaml driver computes for the same case (driver kind SDG)."""
import os, re, subprocess
from . import build, ws

def gl(b):
    return '[' + ';'.join(str(x) for x in b) + ']'

IO = {'wb': 'WouldBlock', 'reset': 'ConnReset', 'intr': 'Interrupted', 'other': 'IoOther'}

def g_close(code, h):
    if code == '-': return 'None'
    return '(Some (close_of_u16 %s, %s))' % (code, gl(ws.unhx(h)))

def g_op(o):
    p = o.split(':')
    k = p[0]
    if k == 'r': return 'OpRead'
    if k == 'f': return 'OpFlush'
    if k == 'cr': return 'OpCanRead'
    if k == 'cw': return 'OpCanWrite'
    if k == 'wt': return '(OpWrite (MText %s))' % gl(ws.unhx(p[1]))
    if k == 'wb': return '(OpWrite (MBinary %s))' % gl(ws.unhx(p[1]))
    if k == 'wpi': return '(OpWrite (MPing %s))' % gl(ws.unhx(p[1]))
    if k == 'wpo': return '(OpWrite (MPong %s))' % gl(ws.unhx(p[1]))
    if k == 'wc': return '(OpWrite (MClose %s))' % (g_close(p[1], p[2]) if p[1] != '-' else 'None')
    if k == 'c': return '(OpClose %s)' % (g_close(p[1], p[2]) if p[1] != '-' else 'None')
    if k in ('sb', 'sn'): return '(OpSetBuf %s %s)' % (p[1], 'u64_max' if p[2] == 'inf' else p[2])
    if k == 'wf':
        fl = p[1]
        mask = 'None' if p[3] == '-' else '(Some (%s))' % ','.join(str(x) for x in ws.unhx(p[3]))
        return ('(OpWrite (MFrame (mkFrame (mkHeader %s %s %s %s (match opcode_of_u8 %s with Some o => o | None => OData Continue end) %s) %s)))'
                % tuple(['true' if c == '1' else 'false' for c in fl] + [p[2], mask, gl(ws.unhx(p[4]))]))
    raise ValueError(o)

def g_rd(r):
    p = r.split(':')
    if p[0] == 'eof': return 'RdEof'
    if p[0] == 'e': return '(RdErr %s)' % IO[p[1]]
    return '(RdData %s)' % gl(ws.unhx(p[1]))
def g_wr(r):
    p = r.split(':')
    return '(WrAccept %s)' % p[1] if p[0] == 'a' else '(WrErr %s)' % IO[p[1]]
def g_fl(r):
    p = r.split(':')
    return 'FlOk' if p[0] == 'ok' else '(FlErr %s)' % IO[p[1]]

def g_keys(seed, n):
    out = []
    for i in range(n):
        v = (seed + i * 0x9E3779B1) & 0xFFFFFFFF
        out.append('(%d,%d,%d,%d)' % ((v >> 24) & 255, (v >> 16) & 255, (v >> 8) & 255, v & 255))
    return '[' + ';'.join(out) + ']'

def gallina_case(mline):
    c = ws.SCase(mline)
    f = c.fields
    cfg = '(mkConfig %d %s %s %s %s)' % (c.wbs, 'u64_max' if c.max is None else c.max,
                                          'None' if c.mms is None else '(Some %d)' % c.mms,
                                          'None' if c.mfs is None else '(Some %d)' % c.mfs, 'true' if c.au else 'false')
    ops = '[' + ';'.join(g_op(o) for o in c.ops) + ']'
    w = '(mkWorld [%s] [%s] [%s] %s [])' % (';'.join(g_rd(r) for r in c.rds), ';'.join(g_wr(r) for r in c.wrs),
                                            ';'.join(g_fl(r) for r in c.fls), g_keys(c.seed, 2 * len(c.ops) + 4))
    return 'run_digest %s %s %s %s %s' % ('Server' if c.role == 's' else 'Client', gl(c.pre), cfg, ops, w)

def xcheck(mlines, workdir, sample, rng):
    """returns (checked, disagreements[list of (id, kernel, extracted)])"""
    cands = [m for m in mlines if m.startswith('S ') and len(m) < 2500]
    if not cands:
        return 0, []
    pick = rng.sample(cands, min(sample, len(cands)))
    os.makedirs(workdir, exist_ok=True)
    vfile = os.path.join(workdir, 'xcases.v')
    with open(vfile, 'w') as f:
        f.write('From TungModel Require Import Digest.\n')
        for i, m in enumerate(pick):
            f.write('Eval vm_compute in (%d, %s).\n' % (i, gallina_case(m)))
    rc, out = build.sh('timeout 600 coqc -noglob -Q %s TungModel %s' % (build.COQ, vfile), cwd=workdir, timeout=700)
    if rc != 0:
        raise build.BuildError('kernel cross-check file does not compile', out[-2000:])
    kern = {}
    for a, b in re.findall(r'=\s*\((\d+),\s*(\d+)\)', out.replace('\n', ' ')):
        kern[int(a)] = b
    drv_in = '\n'.join('SDG ' + m[2:] for m in pick) + '\n'
    p = subprocess.run(build.DRIVER, input=drv_in.encode(), stdout=subprocess.PIPE, timeout=600)
    ext = {}
    for line in p.stdout.decode().split('\n'):
        if line:
            i = line.index(' '); ext[line[:i]] = line[i + 1:]
    bad = []
    for i, m in enumerate(pick):
        cid = m.split(' ')[1]
        if kern.get(i) != ext.get(cid):
            bad.append((cid, kern.get(i), ext.get(cid)))
    return len(pick), bad


# ---------------------------------------------------------------------------------------------
# pure (E1) kinds: the model function is evaluated inside Coq on the case's input and must give what the extracted
# driver printed for the same case (U8, MK, HF, FF, CC, MA)

def _hdr(flags, opc, mask):
    m = 'None' if mask == '-' else '(Some (%s))' % ','.join(str(x) for x in ws.unhx(mask))
    return ('(mkHeader %s %s %s %s (match opcode_of_u8 %s with Some o => o | None => OData Continue end) %s)'
            % tuple(['true' if c == '1' else 'false' for c in flags] + [opc, m]))

def pure_term(line):
    """-> Gallina term of type list N, or None if the kind is not covered"""
    f = line.split(' ')
    k = f[0]
    if k == 'U8':
        return 'match from_utf8 %s with UOk => [0] | UErr v None => [1; v] | UErr v (Some l) => [2; v; l] end' % gl(ws.unhx(f[2]))
    if k == 'MK':
        key = ','.join(str(x) for x in ws.unhx(f[4]))
        return 'mask_fast32 %s (%s) %s' % (f[3], key, gl(ws.unhx(f[5])))
    if k == 'HF':
        return 'header_len %s %s :: header_format %s %s' % (_hdr(f[2], f[3], f[4]), f[5], _hdr(f[2], f[3], f[4]), f[5])
    if k == 'FF' and len(f[5]) < 3000:
        fr = '(mkFrame %s %s)' % (_hdr(f[2], f[3], f[4]), gl(ws.unhx(f[5])))
        return 'frame_len %s :: frame_format %s' % (fr, fr)
    if k == 'CC':
        return '[close_to_u16 (close_of_u16 %s); if close_allowed (close_of_u16 %s) then 1 else 0]' % (f[2], f[2])
    if k == 'MA' and all(len(x) < 3000 for x in f):
        if f[2] == 'T': m = '(MText %s)' % gl(ws.unhx(f[3]))
        elif f[2] == 'B': m = '(MBinary %s)' % gl(ws.unhx(f[3]))
        elif f[2] == 'PI': m = '(MPing %s)' % gl(ws.unhx(f[3]))
        elif f[2] == 'PO': m = '(MPong %s)' % gl(ws.unhx(f[3]))
        elif f[2] == 'C': m = '(MClose %s)' % g_close(f[3], f[4])
        elif f[2] == 'F': m = '(MFrame (mkFrame %s %s))' % (_hdr(f[3], f[4], f[5]), gl(ws.unhx(f[6])))
        else: return None
        return ('msg_len %s :: (if msg_is_empty %s then 1 else 0) :: match msg_into_text %s with Some t => 1 :: blen t :: t | None => [0] end ++ msg_display %s'
                % (m, m, m, m))
    return None

def pure_expected(line, mtrace):
    """the same list computed from the extracted driver's printed answer"""
    f = line.split(' ')
    k = f[0]
    if k == 'U8':
        if mtrace == 'ok': return [0]
        p = mtrace.split(':')
        return [1, int(p[1])] if p[2] == '-' else [2, int(p[1]), int(p[2])]
    if k == 'MK':
        return list(ws.unhx(mtrace))
    if k == 'HF':
        h, n = mtrace.split(':')
        return [int(n)] + list(ws.unhx(h))
    if k == 'FF':
        p = mtrace.split(':')
        return [int(p[1])] + list(ws.unhx(p[0]))
    if k == 'CC':
        p = mtrace.split(':')
        return [int(p[1]), int(p[2])]
    if k == 'MA':
        p = mtrace.split(':')
        t = [0] if p[4] == 'err' else [1, len(ws.unhx(p[4][3:]))] + list(ws.unhx(p[4][3:]))
        return [int(p[1]), int(p[2])] + t + list(ws.unhx(p[6]))
    return None

def xcheck_pure(case_lines, model, workdir, sample, rng):
    """returns (checked, disagreements[(id, kernel, extracted)])"""
    cands = [c for c in case_lines if c.split(' ', 1)[0] in ('U8', 'MK', 'HF', 'FF', 'CC', 'MA') and len(c) < 8000
             and not model.get(c.split(' ')[1], '').startswith(('driver-', 'unknown-kind', 'bad-case'))]
    if not cands:
        return 0, []
    pick = rng.sample(cands, min(sample, len(cands)))
    terms = [(c, pure_term(c)) for c in pick]
    terms = [(c, t) for c, t in terms if t is not None]
    if not terms:
        return 0, []
    os.makedirs(workdir, exist_ok=True)
    vfile = os.path.join(workdir, 'xpure.v')
    with open(vfile, 'w') as f:
        f.write('From TungModel Require Import Base Coding Mask Header Frame Utf8 World Message MessageApi.\n')
        for i, (c, t) in enumerate(terms):
            f.write('Eval vm_compute in (%d :: 4294967295 :: (%s)).\n' % (i, t))
    rc, out = build.sh('timeout 600 coqc -noglob -Q %s TungModel %s' % (build.COQ, vfile), cwd=workdir, timeout=700)
    if rc != 0:
        raise build.BuildError('kernel cross-check file (pure kinds) does not compile', out[-2000:])
    kern = {}
    for m in re.finditer(r'=\s*\[([^\]]*)\]', out.replace('\n', ' ')):
        nums = [int(x) for x in m.group(1).replace(' ', '').split(';') if x]
        if len(nums) >= 2 and nums[1] == 4294967295:
            kern[nums[0]] = nums[2:]
    bad = []
    for i, (c, t) in enumerate(terms):
        cid = c.split(' ')[1]
        exp = pure_expected(c, model.get(cid, ''))
        if kern.get(i) != exp:
            bad.append((cid, str(kern.get(i))[:200], str(exp)[:200]))
    return len(terms), bad
