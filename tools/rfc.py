"""Independent RFC 6455 receiver: bytes -> list of items a conforming endpoint delivers.
Written from the RFC (plus the documented leniencies listed in DESIGN.md C02), not from the model.
Items: ('T', bytes) ('B', bytes) ('PI', bytes) ('PO', bytes) ('C', code|None, reason) ('ERR', class, rule)
class in {'Protocol', 'Capacity', 'Utf8'}; decoding stops at the first ERR or Close."""
from . import ws

def utf8_prefix_ok(b):
    """b is a prefix of some valid UTF-8 string (i.e. valid except possibly a truncated last char)"""
    try:
        b.decode('utf-8')
        return True
    except UnicodeDecodeError as e:
        # a truncated sequence at the very end is fine if it can still be completed
        if e.reason == 'unexpected end of data' and e.end == len(b):
            tail = b[e.start:]
            return _can_complete(tail)
        return False

def _can_complete(tail):
    # try all completions of up to 3 continuation-like bytes (small search, exact)
    n = len(tail)
    first = tail[0]
    need = 2 if 0xC2 <= first <= 0xDF else 3 if 0xE0 <= first <= 0xEF else 4 if 0xF0 <= first <= 0xF4 else 0
    if need == 0 or n >= need:
        return False
    # fill with candidate continuation bytes
    cands = [0x80, 0x8F, 0x90, 0x9F, 0xA0, 0xBF]
    import itertools
    for fill in itertools.product(cands, repeat=need - n):
        try:
            (tail + bytes(fill)).decode('utf-8')
            return True
        except UnicodeDecodeError:
            pass
    return False

def decode(data, role, accept_unmasked=False, mfs=None, mms=None):
    """returns (items, consumed_all: bool). role = role of the RECEIVING endpoint ('s' or 'c')."""
    items = []
    i = 0
    frag = None          # (kind, bytearray)
    while True:
        if len(data) - i < 2:
            return items, False
        b0, b1 = data[i], data[i + 1]
        fin = bool(b0 & 0x80); rsv = (b0 >> 4) & 7; opc = b0 & 15
        masked = bool(b1 & 0x80); l7 = b1 & 0x7f
        j = i + 2
        if l7 == 126:
            if len(data) - j < 2: return items, False
            n = int.from_bytes(data[j:j + 2], 'big'); j += 2
        elif l7 == 127:
            if len(data) - j < 8: return items, False
            n = int.from_bytes(data[j:j + 8], 'big'); j += 8
        else:
            n = l7
        key = None
        if masked:
            if len(data) - j < 4: return items, False
            key = data[j:j + 4]; j += 4
        if 3 <= opc <= 7 or opc >= 11:
            items.append(('ERR', 'Protocol', 'reserved-opcode')); return items, True
        if mfs is not None and n > mfs:
            items.append(('ERR', 'Capacity', 'frame-too-long', n, mfs)); return items, True
        if len(data) - j < n:
            return items, False
        payload = data[j:j + n]
        i = j + n
        if role == 's':
            if masked:
                payload = ws.xor_mask(payload, key)
            elif not accept_unmasked:
                items.append(('ERR', 'Protocol', 'unmasked-from-client')); return items, True
        if rsv:
            items.append(('ERR', 'Protocol', 'rsv')); return items, True
        if role == 'c' and masked:
            items.append(('ERR', 'Protocol', 'masked-from-server')); return items, True
        if opc >= 8:
            if not fin:
                items.append(('ERR', 'Protocol', 'fragmented-control')); return items, True
            if n > 125:
                items.append(('ERR', 'Protocol', 'control-too-big')); return items, True
            if opc == 8:
                if n == 0:
                    items.append(('C', None, b'')); return items, True
                if n == 1:
                    items.append(('ERR', 'Protocol', 'close-payload')); return items, True
                code = (payload[0] << 8) | payload[1]
                if not ws.is_utf8(payload[2:]):
                    items.append(('ERR', 'Utf8', 'close-reason')); return items, True
                items.append(('C', code, payload[2:])); return items, True
            items.append(('PI' if opc == 9 else 'PO', payload))
            continue
        # data
        if opc == 0:
            if frag is None:
                items.append(('ERR', 'Protocol', 'orphan-continuation')); return items, True
            kind, acc = frag
            if mms is not None and len(acc) + n > mms:
                items.append(('ERR', 'Capacity', 'message-too-long', len(acc) + n, mms)); return items, True
            acc += payload
            if kind == 'T' and not utf8_prefix_ok(bytes(acc)):
                items.append(('ERR', 'Utf8', 'text')); return items, True
            if fin:
                if kind == 'T' and not ws.is_utf8(bytes(acc)):
                    items.append(('ERR', 'Utf8', 'text')); return items, True
                items.append((kind, bytes(acc))); frag = None
            continue
        if frag is not None:
            items.append(('ERR', 'Protocol', 'nested-data')); return items, True
        kind = 'T' if opc == 1 else 'B'
        if mms is not None and n > mms:
            items.append(('ERR', 'Capacity', 'message-too-long', n, mms)); return items, True
        if fin:
            if kind == 'T' and not ws.is_utf8(payload):
                items.append(('ERR', 'Utf8', 'text')); return items, True
            items.append((kind, payload))
        else:
            if kind == 'T' and not utf8_prefix_ok(payload):
                items.append(('ERR', 'Utf8', 'text')); return items, True
            frag = (kind, bytearray(payload))

def item_result(it):
    """trace form of a delivered item / error class"""
    if it[0] in ('T', 'B', 'PI', 'PO'):
        return 'ok:%s:%s' % (it[0], ws.hx(it[1]))
    if it[0] == 'C':
        return 'close'
    return 'err-class:' + it[1]

def trace_class(res):
    """map an implementation read result to the comparable form"""
    if res.startswith('ok:C'):
        return 'close'
    if res.startswith('ok:'):
        return res
    if res.startswith('err:proto:'): return 'err-class:Protocol'
    if res.startswith('err:cap:'): return 'err-class:Capacity'
    if res.startswith('err:utf8'): return 'err-class:Utf8'
    return res
