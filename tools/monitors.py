"""Independent monitors: evaluate a property's clauses on an implementation trace (engine E2).
Each returns None or 'signature: human readable description'. They use only tools/ws.py (a from-scratch
RFC 6455 codec) and the documented API semantics - never the Coq model."""
from . import ws

def _is_write(op): return op.split(':')[0] in ('wt', 'wb', 'wpi', 'wpo', 'wf')
def _is_close(op): return op.split(':')[0] in ('c', 'wc')

def op_frame(case, op):
    """(opcode, payload) of the frame a user op asks to send, or None"""
    p = op.split(':')
    k = p[0]
    if k == 'wt': return (1, ws.unhx(p[1]))
    if k == 'wb': return (2, ws.unhx(p[1]))
    if k == 'wpi': return (9, ws.unhx(p[1]))
    if k == 'wpo': return (10, ws.unhx(p[1]))
    if k in ('c', 'wc'):
        if p[1] == '-': return (8, b'')
        c = int(p[1]); return (8, bytes([c >> 8, c & 255]) + ws.unhx(p[2]))
    return None

class View:
    """facts read off a trace, shared by the monitors"""
    def __init__(self, case, ots):
        self.case = case; self.ots = ots
        self.ops = case.ops[:len(ots)]
        self.wire, self.cum = ws.wire_of(ots)
        self.frames, self.leftover = ws.parse_frames(self.wire)
        # index of the first op after which this endpoint has begun closing (own close() in open state,
        # or a Close was reported by read)
        self.close_recv_at = None      # op index whose read returned ok:C
        self.user_close_at = None      # first close()/write(Close) call made while the connection was open
        self.closed_report_at = None   # first op returning err:closed
        open_ = True
        for i, (op, ot) in enumerate(zip(self.ops, ots)):
            if ot.res.startswith('ok:C') and self.close_recv_at is None:
                self.close_recv_at = i
                open_ = False
            if _is_close(op) and open_ and ot.res not in ('err:already',) and self.user_close_at is None \
               and not ot.res.startswith('panic'):
                self.user_close_at = i
                open_ = False
            if ot.res == 'err:closed' and self.closed_report_at is None:
                self.closed_report_at = i
            if ot.res.startswith('err:proto:ResetWithoutClosingHandshake'):
                open_ = False
        self.began_closing_at = min([x for x in (self.close_recv_at, self.user_close_at) if x is not None], default=None)

    def ended_by(self, i):
        return ws.transport_ended(self.ots, i)

    def hard_error_by(self, i):
        """any error other than WouldBlock/closed/already/full/SendAfterClosing reported up to op i"""
        for ot in self.ots[:i + 1]:
            r = ot.res
            if r.startswith('err:') and not (r.startswith('err:io:wb') or r in ('err:closed', 'err:already')
                                             or r.startswith('err:full') or r == 'err:proto:SendAfterClosing'):
                return True
            if r.startswith('panic'):
                return True
        return False

def mon_c03(case, ots):
    v = View(case, ots)
    # (a) once closing has begun every later write is refused
    if v.began_closing_at is not None:
        for i in range(v.began_closing_at + 1, len(ots)):
            if _is_write(v.ops[i]) and (ots[i].res == 'ok' or ots[i].res.startswith('err:io') or ots[i].res.startswith('err:full')):
                return 'a-write-accepted-after-close: op %d %s -> %s after closing began at op %d' % (i, v.ops[i], ots[i].res, v.began_closing_at)
    # (a) own Close is the last frame on the wire
    for k, f in enumerate(v.frames):
        if f.opcode == 8 and k != len(v.frames) - 1:
            return 'a-frame-after-close: wire has opcode %d frame after the Close frame' % v.frames[k + 1].opcode
    if any(f.opcode == 8 for f in v.frames) and v.leftover:
        return 'a-frame-after-close: bytes follow the Close frame on the wire'
    # (b) no message after a Close was delivered
    if v.close_recv_at is not None:
        for i in range(v.close_recv_at + 1, len(ots)):
            if v.ops[i] == 'r' and ots[i].res.startswith('ok:'):
                return 'b-message-after-close: read op %d returned %s after Close at op %d' % (i, ots[i].res[:40], v.close_recv_at)
    # (c)/(d) ConnectionClosed only when justified
    for i, ot in enumerate(ots):
        if ot.res != 'err:closed':
            continue
        if v.close_recv_at is None or v.close_recv_at > i:
            return 'c-closed-without-close-received: op %d %s returned ConnectionClosed but no Close was ever delivered' % (i, v.ops[i])
        ended = v.ended_by(i)
        if case.role == 'c' and not ended:
            return 'c-client-closed-before-transport-end: op %d' % i
        if not ended:
            wire = v.wire[:v.cum[i]]
            frames, left = ws.parse_frames(wire)
            if left or not frames or not frames[-1].complete or frames[-1].opcode != 8:
                return 'c-closed-with-unsent-data: op %d %s returned ConnectionClosed on a live transport but the wire (%d bytes) does not end with this endpoint\'s complete Close frame' % (i, v.ops[i], len(wire))
        break
    # (d) EOF before any Close is a reset
    for i, ot in enumerate(ots):
        if 'R:eof' in ot.events and (v.close_recv_at is None or v.close_recv_at > i):
            if v.ops[i] == 'r' and ot.res != 'err:proto:ResetWithoutClosingHandshake':
                return 'd-eof-not-reset: read op %d saw EOF before any Close and returned %s' % (i, ot.res)
            break
    # (e) after the clean-close report, reads and writes are refused as already closed
    if v.closed_report_at is not None:
        for i in range(v.closed_report_at + 1, len(ots)):
            if (v.ops[i] == 'r' or _is_write(v.ops[i])) and ots[i].res != 'err:already':
                return 'e-not-already-closed: op %d %s returned %s after ConnectionClosed at op %d' % (i, v.ops[i], ots[i].res[:40], v.closed_report_at)
    # (f) can_read/can_write agree with the next call
    for i in range(len(ots) - 1):
        if v.ops[i] == 'cw' and ots[i].res == 'false' and _is_write(v.ops[i + 1]):
            r = ots[i + 1].res
            if r == 'ok' or r.startswith('err:io') or r.startswith('err:full'):
                return 'f-can-write-false-but-accepted: op %d' % (i + 1)
        if v.ops[i] == 'cw' and ots[i].res == 'true' and _is_write(v.ops[i + 1]):
            r = ots[i + 1].res
            if r in ('err:already', 'err:proto:SendAfterClosing'):
                return 'f-can-write-true-but-refused: op %d' % (i + 1)
        if v.ops[i] == 'cr' and ots[i].res == 'false' and v.ops[i + 1] == 'r' and ots[i + 1].res.startswith('ok:'):
            return 'f-can-read-false-but-delivered: op %d' % (i + 1)
    return None

def mon_c13(case, ots, drained_tail):
    """Close / replies never lost: at the end of a history whose tail kept flushing an accepting transport,
    the Close this endpoint owes must be on the wire; never ConnectionClosed while it is unsent (live transport)."""
    v = View(case, ots)
    n = len(ots)
    if n == 0:
        return None
    owes_close = v.began_closing_at is not None
    last = n - 1
    # premature ConnectionClosed is the same clause as C03(c); report with C13's signature
    for i, ot in enumerate(ots):
        if ot.res == 'err:closed' and not v.ended_by(i) and v.close_recv_at is not None and v.close_recv_at <= i:
            frames, left = ws.parse_frames(v.wire[:v.cum[i]])
            if left or not frames or not frames[-1].complete or frames[-1].opcode != 8:
                return 'closed-while-reply-unsent: op %d %s returned ConnectionClosed with the Close frame not (fully) on the wire of a live transport' % (i, v.ops[i])
            break
    if not drained_tail:
        return None
    if not owes_close:
        # a pong parked behind a momentarily full buffer must still go out once the transport accepts again
        if v.ended_by(last) or v.hard_error_by(last) or any(o.startswith('wf:') or o.startswith('wpo:') for o in v.ops):
            return None
        if n < 2 or v.ops[last] not in ('f', 'r') or v.ops[last - 1] != v.ops[last]:
            return None
        want = 'ok' if v.ops[last] == 'f' else 'err:io:wb'     # a read-only tail: nothing more to read, nothing refused on the write side
        if ots[last].res != want or ots[last - 1].res != want:
            return None
        if any((e.startswith('W:') and (':e:' in e or e.split(':')[2] == '-')) or e.startswith('F:e:') for ot in ots[last - 1:] for e in ot.events):
            return None
        pings = [ws.unhx(ot.res[6:]) for op, ot in zip(v.ops, ots) if op == 'r' and ot.res.startswith('ok:PI:')]
        if pings:
            wire_pongs = [f.payload for f in v.frames if f.opcode == 10 and f.complete]
            if pings[-1] not in wire_pongs:
                return 'pong-lost%s: ping %s was delivered, the transport accepted again and %d %s calls went through unrefused, but its pong never reached the wire' % (
                    '-read-only' if v.ops[last] == 'r' else '', ws.hx(pings[-1]), drained_tail, 'read' if v.ops[last] == 'r' else 'flush')
        return None
    if v.ended_by(last) or v.hard_error_by(last):
        return None
    # the tail must have actually run to an accepting transport: the last flush returned ok / closed / already
    # (at most two calls are needed once the transport accepts: the last two ops must be such flushes)
    drivers = ('f', 'r', 'c:-')
    if n < 2 or v.ops[last] not in drivers or v.ops[last - 1] != v.ops[last]:
        return None
    okres = ('ok', 'err:closed', 'err:already', 'err:io:wb') if v.ops[last] == 'r' else ('ok', 'err:closed', 'err:already')
    if ots[last].res not in okres or ots[last - 1].res not in okres:
        return None
    # a read that blocked must have blocked on the READ side (no write/flush refusal in the last two calls)
    for ot in ots[last - 1:]:
        if any((e.startswith('W:') and ':e:' in e) or e.startswith('F:e:') for e in ot.events):
            return None
    if not owes_close:
        return None
    has_close = any(f.opcode == 8 and f.complete for f in v.frames)
    if not has_close:
        return 'close-lost%s: closing began at op %d (%s) but after the transport accepted again and %d %s calls the wire holds no Close frame' % (
            '-read-only' if v.ops[last] == 'r' else '', v.began_closing_at, v.ops[v.began_closing_at], drained_tail, v.ops[last])
    return None

def mon_c12(case, ots):
    """the Close reply on the wire equals what read reported (or 1002), exactly one Close frame"""
    v = View(case, ots)
    closes = [f for f in v.frames if f.opcode == 8 and f.complete]
    if len(closes) > 1:
        return 'two-closes: %d Close frames on the wire' % len(closes)
    if v.close_recv_at is None:
        return None
    rep = ots[v.close_recv_at].res[len('ok:C:'):]
    # what the peer sent: find from inbound stream
    if v.user_close_at is not None and v.user_close_at < v.close_recv_at:
        return None   # acknowledgement of our own close: reported unchanged, nothing sent in reply (checked by correspondence)
    if not closes:
        # not on the wire: acceptable only while it can still be sent - not once the endpoint reported the
        # connection closed on a live transport, and not after a drained accepting tail
        tail = 0
        for o in reversed(v.ops):
            if o == v.ops[-1] and o in ('f', 'r', 'c:-'): tail += 1
            else: break
        w = mon_c13(case, ots, tail if tail >= 3 else 0)
        if w:
            return 'reply-never-sent: ' + w.split(': ', 1)[1]
        return None
    p = closes[0].payload
    wire_rep = '-' if len(p) == 0 else '%d:%s' % ((p[0] << 8) | p[1], ws.hx(p[2:]))
    if wire_rep != rep:
        return 'reply-differs: read reported Close(%s) but the reply on the wire is Close(%s)' % (rep, wire_rep)
    if len(p) >= 2 and not ws.close_allowed((p[0] << 8) | p[1]):
        return 'reply-bad-code: reply carries status %d which may not appear on the wire' % ((p[0] << 8) | p[1])
    return None

def mon_c09(case, ots):
    """every frame on the wire is well-formed for the role"""
    v = View(case, ots)
    raw_ops = any(o.startswith('wf:') for o in v.ops)
    if raw_ops:
        return None
    user_big_ctl = any(_is_write(o) and o.split(':')[0] in ('wpi', 'wpo') and len(ws.unhx(o.split(':')[1])) > 125 for o in v.ops) or \
        any(_is_close(o) and o.split(':')[1] != '-' and len(ws.unhx(o.split(':')[2])) > 123 for o in v.ops)
    ki = 0
    for f in v.frames:
        if not f.fin: return 'fin-clear: a frame without FIN on the wire'
        if f.rsv: return 'rsv-set: reserved bits set on the wire'
        if f.opcode not in (1, 2, 8, 9, 10): return 'bad-opcode: opcode %d on the wire' % f.opcode
        if not f.minimal: return 'non-minimal-length: length %d not in shortest form' % f.length
        if case.role == 'c' and not f.masked: return 'client-unmasked: client frame without mask'
        if case.role == 's' and f.masked: return 'server-masked: server frame with mask'
        if f.opcode >= 8 and f.length > 125 and not user_big_ctl:
            return 'control-too-big: control frame with %d payload bytes' % f.length
    return None

def mon_c10(case, ots):
    """wire is a prefix of the encodings of accepted frames in order (checked structurally: the wire parses,
    data frames on the wire are exactly the accepted data writes in order)"""
    v = View(case, ots)
    if any(o.startswith('wf:') for o in v.ops):
        return None
    accepted = []
    for op, ot in zip(v.ops, ots):
        fr = op_frame(case, op)
        if fr and fr[0] in (1, 2, 9) and (ot.res == 'ok' or ot.res.startswith('err:io') or ot.res == 'err:closed'):
            accepted.append(fr)
    on_wire = [(f.opcode, f.payload) for f in v.frames if f.opcode in (1, 2, 9) and f.complete]
    if on_wire != accepted[:len(on_wire)]:
        return 'data-order: data/ping frames on the wire %r are not a prefix of the accepted writes %r' % (
            [(o, ws.hx(p)[:16]) for o, p in on_wire][:6], [(o, ws.hx(p)[:16]) for o, p in accepted][:6])
    # a successful flush means everything accepted so far is on the wire and the transport was flushed
    acc_count = 0
    for i, (op, ot) in enumerate(zip(v.ops, ots)):
        fr = op_frame(case, op)
        if fr and fr[0] in (1, 2, 9) and (ot.res == 'ok' or ot.res.startswith('err:io') or ot.res == 'err:closed'):
            acc_count += 1
        if op == 'f' and ot.res == 'ok':
            frames, left = ws.parse_frames(v.wire[:v.cum[i]])
            sent = [x for x in frames if x.opcode in (1, 2, 9) and x.complete]
            if left or (frames and not frames[-1].complete) or len(sent) != acc_count:
                return 'flush-ok-but-unsent: flush op %d returned Ok with %d of %d accepted data frames on the wire' % (i, len(sent), acc_count)
            if not ot.events or ot.events[-1] != 'F:ok':
                return 'flush-ok-without-transport-flush: op %d' % i
    return None

def mon_c11(case, ots):
    """pongs on the wire: each automatic pong matches a ping delivered earlier, in order, none invented"""
    v = View(case, ots)
    if any(o.startswith('wf:') for o in v.ops):
        return None
    pings = []      # (op index, payload) delivered while open
    for i, (op, ot) in enumerate(zip(v.ops, ots)):
        if op == 'r' and ot.res.startswith('ok:PI:'):
            pings.append((i, ws.unhx(ot.res[6:])))
    user_pongs = [ws.unhx(o.split(':')[1]) for o in v.ops if o.startswith('wpo:')]
    wire_pongs = [f.payload for f in v.frames if f.opcode == 10 and f.complete]
    # every wire pong is either a user pong or answers a delivered ping; automatic ones in ping order
    pi = 0
    up = list(user_pongs)
    for p in wire_pongs:
        j = pi
        while j < len(pings) and pings[j][1] != p:
            j += 1
        if j < len(pings):
            pi = j + 1
        elif p in up:
            up.remove(p)
        else:
            return 'pong-invented: pong %s on the wire matches no delivered ping (in order) and no user pong' % ws.hx(p)
    return None

def mon_c11_sent(case, ots):
    """unlimited buffer: for each ping delivered while open, the first later read/write/flush call whose transport
    writes and flush all succeed (or that makes no transport call at all) must leave the matching pong written AND
    flushed - unless a user pong, a newer ping, or the start of closing superseded it first. Event-level scan."""
    v = View(case, ots)
    if case.max is not None or any(o.startswith('wf:') for o in v.ops):
        return None
    # event-level positions: cumulative wire length after every event, and where F:ok events are
    pos = []          # (op index, kind, wire_len_after)
    wl = 0
    for i, ot in enumerate(ots):
        for e in ot.events:
            if e.startswith('W:'):
                p = e.split(':')
                if p[2] not in ('e', '-'):
                    wl += len(p[2]) // 2
                pos.append((i, 'W', wl))
            elif e == 'F:ok':
                pos.append((i, 'Fok', wl))
            else:
                pos.append((i, 'x', wl))
    # end offsets of pong frames on the final wire
    pongs = []
    off = 0
    for f in v.frames:
        end = off + f.hdr_len + f.length
        if f.opcode == 10 and f.complete:
            pongs.append((f.payload, end))
        off = end
    used = 0
    for i, (op, ot) in enumerate(zip(v.ops, ots)):
        if not (op == 'r' and ot.res.startswith('ok:PI:')):
            continue
        if v.began_closing_at is not None and v.began_closing_at <= i:
            continue
        payload = ws.unhx(ot.res[6:])
        # first later call that can be held responsible
        for j in range(i + 1, len(ots)):
            o2 = v.ops[j]
            if o2 in ('cr', 'cw') or o2.startswith('sb:'):
                continue
            if _is_close(o2):
                break                      # closing begins
            if o2.startswith('wpo:'):
                # a user pong replaces the automatic one only while it is still parked; once a call in between offered
                # bytes to the transport (write buffer size 0: _write moved the pong into the write buffer first) it
                # is queued for good and the user pong merely follows it
                # (only read/flush calls prove it: a data write offers its own frame first and may fail before the pong moves)
                moved = case.wbs == 0 and any(v.ops[t] in ('r', 'f') and any(e.startswith('W:') for e in ots[t].events) for t in range(i + 1, j))
                if not moved:
                    break
                continue                   # write(Pong) never flushes ("user pongs can be user flushed"): the next call is responsible
            evs = ots[j].events
            failed = any((e.startswith('W:') and (':e:' in e or e.split(':')[2] == '-')) or e.startswith('F:e:') for e in evs)
            if failed:
                continue                   # postponed: look at the next call
            r2 = ots[j].res
            if r2.startswith('err:') and not r2.startswith('err:io:wb'):
                break                      # hard error / connection over
            # by the end of call j the pong must be on the wire and flushed afterwards (in call j or earlier)
            end = None
            for (pl, e_) in pongs:
                if pl == payload and e_ > 0:
                    end = e_; break
            sent_flushed = False
            if end is not None:
                reached = False
                for (k, kind, w_) in pos:
                    if k > j: break
                    if w_ >= end: reached = True
                    if reached and kind == 'Fok' and w_ >= end:
                        sent_flushed = True; break
            if not sent_flushed:
                # a newer ping delivered in between replaces the pong legitimately
                newer = any(v.ops[t] == 'r' and ots[t].res.startswith('ok:PI:') for t in range(i + 1, j + 1))
                closed = any(ots[t].res.startswith('ok:C') for t in range(i + 1, j + 1))
                if newer or closed:
                    break
                return 'pong-not-sent: ping %s delivered at op %d; op %d (%s) had no failing transport call, yet the pong is not written and flushed by then' % (ws.hx(payload), i, j, o2)
            break
    return None

def mon_c14(case, ots):
    """unsent bytes <= max (+ one control frame); WriteBufferFull hands the frame back; batching threshold"""
    v = View(case, ots)
    if any(o.startswith('sb:') or o.startswith('wf:') for o in v.ops):
        return None
    role = case.role
    hdr = lambda n: 2 + (0 if n < 126 else 2 if n < 65536 else 8) + (4 if role == 'c' else 0)
    for i, (op, ot) in enumerate(zip(v.ops, ots)):
        fr = op_frame(case, op)
        if ot.res.startswith('err:full:'):
            p = ot.res.split(':')
            # err:full:<flags>:<opcode>:<mask>:<payload>
            if fr is None:
                return 'full-from-non-write: op %d %s returned WriteBufferFull' % (i, op)
            if int(p[3]) != fr[0] or ws.unhx(p[5]) != fr[1] or p[2] != '1000':
                return 'full-frame-differs: op %d %s handed back opcode %s payload %s' % (i, op, p[3], p[5][:32])
            if case.max is None:
                return 'full-with-unlimited-buffer: op %d' % i
        if fr and fr[0] in (1, 2, 9) and ot.res == 'ok' and case.wbs == 0:
            if not any(e.startswith('W:') for e in ot.events):
                return 'not-eager: write op %d accepted with write_buffer_size 0 but no transport write happened' % i
    return None

def mon_c14_bound(case, ots):
    """every transport write offers the whole out_buffer: its length must never exceed max_write_buffer_size"""
    if case.max is None or any(o.startswith('sb:') for o in case.ops):
        return None
    for i, ot in enumerate(ots):
        for e in ot.events:
            if e.startswith('W:'):
                off = int(e.split(':')[1])
                if off > case.max:
                    return 'buffer-over-max: op %d offered %d unsent bytes to the transport with max_write_buffer_size %d' % (i, off, case.max)
    return None


def mon_emptybuf(ots):
    for i, ot in enumerate(ots):
        if 'R:EMPTYBUF' in ot.events:
            return 'false-eof: call %d read the transport with a zero-length buffer while bytes were available (reported as end of stream)' % i
    return None

def mon_c14_batching(case, ots):
    """after a successful flush nothing is pending; until the next read / pong / close, a data write that keeps the
    unsent data at or below write_buffer_size must not touch the transport"""
    if case.max is not None or any(o.startswith('sb:') or o.startswith('wf:') for o in case.ops):
        return None
    quiet = False
    unsent = 0
    for i, (op, ot) in enumerate(zip(case.ops, ots)):
        k = op.split(':')[0]
        if k == 'f':
            quiet = (ot.res == 'ok'); unsent = 0
            continue
        if k in ('cr', 'cw'):
            continue
        if k in ('wt', 'wb', 'wpi') and quiet and ot.res == 'ok':
            fr = op_frame(case, op)
            n = len(fr[1])
            size = 2 + (0 if n < 126 else 2 if n < 65536 else 8) + (4 if case.role == 'c' else 0) + n
            if unsent + size <= case.wbs:
                if ot.events:
                    return 'not-batched: write op %d (%d unsent + %d byte frame <= write_buffer_size %d, nothing pending) touched the transport: %s' % (
                        i, unsent, size, case.wbs, ' '.join(ot.events)[:80])
                unsent += size
            else:
                quiet = False
            continue
        quiet = False
    return None

def mon_c14_full_exact(case, ots):
    """write-only histories (no reads, so no automatic frames): the unsent amount is known exactly, hence WriteBufferFull
    must be returned exactly when frame size + unsent exceeds the CURRENT max_write_buffer_size (set_config included)"""
    ops = case.ops[:len(ots)]
    if any(o.split(':')[0] not in ('wt', 'wb', 'wpi', 'f', 'sb', 'cr', 'cw') for o in ops):
        return None
    unsent = 0
    cur_max = case.max
    cur_wbs = case.wbs
    for i, (op, ot) in enumerate(zip(ops, ots)):
        k = op.split(':')[0]
        if k == 'sb':
            if ot.res == 'ok':
                p = op.split(':')
                cur_max = None if p[2] == 'inf' else int(p[2])
                cur_wbs = int(p[1])
            continue
        if k in ('wt', 'wb', 'wpi'):
            n = len(ws.unhx(op.split(':')[1]))
            size = 2 + (0 if n < 126 else 2 if n < 65536 else 8) + (4 if case.role == 'c' else 0) + n
            exp_full = cur_max is not None and unsent + size > cur_max
            got_full = ot.res.startswith('err:full')
            if ot.res.startswith('err:proto') or ot.res == 'err:already' or ot.res.startswith('panic'):
                return None
            if exp_full != got_full:
                return ('full-rule: op %d %s: %d bytes unsent + %d byte frame, max_write_buffer_size now %s: expected %s, got %s'
                        % (i, op[:20], unsent, size, cur_max, 'WriteBufferFull' if exp_full else 'acceptance', ot.res[:30]))
            if not got_full:
                # no automatic frame can be pending in a write-only history: whatever the transport did earlier (partial
                # acceptance, refusals), a write that leaves the unsent data at or below write_buffer_size stays in the buffer
                if unsent + size <= cur_wbs and any(e.startswith('W:') or e.startswith('F:') for e in ot.events):
                    return ('not-batched: write op %d %s: %d bytes unsent + %d byte frame <= write_buffer_size %d, nothing pending, but the transport was touched: %s'
                            % (i, op[:20], unsent, size, cur_wbs, ' '.join(ot.events)[:80]))
                unsent += size
        for e in ot.events:
            if e.startswith('W:'):
                p = e.split(':')
                if p[2] not in ('e', '-'):
                    unsent -= len(p[2]) // 2
                if p[2] == '-' or (p[2] == 'e' and p[3] != 'wb'):
                    return None       # transport ended / hard error: stop judging
        if ot.res.startswith('err:io') and not ot.res.startswith('err:io:wb'):
            return None
    return None
