"""Build steps shared by every check: Coq development, extracted driver, Rust harness.
All steps are incremental and serialised by a file lock, so concurrent checks are safe."""
import fcntl, os, subprocess, sys, time, re, glob, hashlib

ROOT = os.path.dirname(os.path.dirname(os.path.abspath(__file__)))
COQ = os.path.join(ROOT, 'coq')
EXTRACT = os.path.join(ROOT, 'extract')
HARNESS = os.path.join(ROOT, 'harness')
WORK = os.path.join(ROOT, 'work')
DRIVER = os.path.join(EXTRACT, '_build', 'driver')
ENV = dict(os.environ, CARGO_NET_OFFLINE='true')

FORBIDDEN = re.compile(r'\b(Admitted|admit|Axiom|Axioms|Parameter|Parameters|Conjecture|Abort All)\b|Unset Guard|bypass_check|type-in-type|impredicative-set|Admit Obligations')

class BuildError(Exception):
    def __init__(self, what, output=''):
        super().__init__(what)
        self.what = what
        self.output = output

def sh(cmd, cwd=None, timeout=1800, env=None):
    p = subprocess.run(cmd, cwd=cwd, shell=isinstance(cmd, str), stdout=subprocess.PIPE,
                       stderr=subprocess.STDOUT, timeout=timeout, env=env or ENV)
    return p.returncode, p.stdout.decode('utf-8', 'replace')

class lock:
    def __enter__(self):
        os.makedirs(WORK, exist_ok=True)
        self.f = open(os.path.join(WORK, '.lock'), 'w')
        fcntl.flock(self.f, fcntl.LOCK_EX)
    def __exit__(self, *a):
        fcntl.flock(self.f, fcntl.LOCK_UN)
        self.f.close()

def strip_comments(src):
    out, depth, i = [], 0, 0
    while i < len(src):
        if src.startswith('(*', i):
            depth += 1; i += 2
        elif src.startswith('*)', i) and depth > 0:
            depth -= 1; i += 2
        else:
            if depth == 0:
                out.append(src[i])
            i += 1
    return ''.join(out)

def scan_forbidden():
    """grep the development (comments stripped) for Admitted/Axiom/... ; returns list of hits"""
    hits = []
    files = glob.glob(os.path.join(COQ, '**', '*.v'), recursive=True) + [os.path.join(EXTRACT, 'Extract.v')]
    for f in files:
        src = strip_comments(open(f).read())
        for n, line in enumerate(src.split('\n'), 1):
            if FORBIDDEN.search(line):
                hits.append('%s:%d: %s' % (os.path.relpath(f, ROOT), n, line.strip()[:120]))
    return hits

def coq_build():
    """full .vo build of the whole development (never -vos)"""
    files = sorted(os.path.relpath(f, COQ) for f in glob.glob(os.path.join(COQ, '*.v')) +
                   glob.glob(os.path.join(COQ, 'proofs', '*.v')) + glob.glob(os.path.join(COQ, 'props', '*.v')))
    want = '-Q . TungModel\n' + '\n'.join(files) + '\n'
    cp = os.path.join(COQ, '_CoqProject')
    if not os.path.exists(cp) or open(cp).read() != want or not os.path.exists(os.path.join(COQ, 'Makefile')):
        with open(cp, 'w') as f:
            f.write(want)
        rc, out = sh('coq_makefile -f _CoqProject -o Makefile', cwd=COQ)
        if rc != 0:
            raise BuildError('coq_makefile failed', out)
    rc, out = sh('timeout 3000 make -k -j16', cwd=COQ, timeout=3100)
    if rc != 0:
        # keep going: a proof file that does not compile must only affect the properties that depend on it.
        # Remove the (possibly stale) .vo of every failed target so that dependents cannot silently use an old version.
        failed = re.findall(r'\[Makefile:\d+: (\S+)\.vo\] Error', out)
        for t in failed:
            for ext in ('.vo', '.vos', '.vok', '.glob'):
                try:
                    os.remove(os.path.join(COQ, t + ext))
                except OSError:
                    pass
        if not failed or any('/' not in t for t in failed):
            raise BuildError('coq build failed (model file)', out[-4000:])
        return 'FAILED: ' + ','.join(failed) + '\n' + out[-3000:]
    return out

def props_compile(pid):
    """re-compile props/<pid>.v, return (theorem names, assumption blocks)"""
    src = os.path.join(COQ, 'props', pid + '.v')
    rc, out = sh('timeout 900 coqc -Q . TungModel props/%s.v' % pid, cwd=COQ, timeout=1000)
    if rc != 0:
        raise BuildError('props/%s.v does not compile' % pid, out[-4000:])
    text = strip_comments(open(src).read())
    theorems = re.findall(r'^\s*Theorem\s+(\w+)', text, re.M)
    printed = re.findall(r'^\s*Print Assumptions\s+(\w+)\s*\.', text, re.M)
    blocks = []
    cur = None
    for line in out.split('\n'):
        if line.startswith('Closed under the global context'):
            blocks.append([]); cur = None
        elif line.startswith('Axioms:'):
            cur = []; blocks.append(cur)
        elif cur is not None and line.strip():
            cur.append(line.strip())
    return theorems, printed, blocks, hashlib.sha256(text.encode()).hexdigest()

def driver_build():
    srcs = [os.path.join(EXTRACT, f) for f in ('Extract.v', 'driver.ml', 'driver_hs.ml', 'dutil.ml', 'build.sh')] + \
           glob.glob(os.path.join(COQ, '*.vo'))
    if os.path.exists(DRIVER) and all(os.path.getmtime(s) <= os.path.getmtime(DRIVER) for s in srcs):
        return
    rc, out = sh('./build.sh', cwd=EXTRACT, timeout=900)
    if rc != 0 or not os.path.exists(DRIVER):
        raise BuildError('extraction/driver build failed', out[-4000:])

def harness_build(profile='release'):
    flag = '--release' if profile == 'release' else ''
    rc, out = sh('cargo build --offline %s' % flag, cwd=HARNESS, timeout=1800)
    if rc != 0:
        raise BuildError('harness (or /repo) does not compile', out[-6000:])
    return os.path.join(HARNESS, 'target', profile if profile == 'release' else 'debug', 'tung-harness')

def harness_build_nohook():
    """the same harness built WITHOUT --cfg tungstenite_verif (real rand::random masks), separate target dir"""
    env = dict(ENV, RUSTFLAGS='--cfg tungstenite_verif_off', CARGO_TARGET_DIR=os.path.join(HARNESS, 'target-nohook'))
    rc, out = sh('cargo build --offline --release', cwd=HARNESS, timeout=1800, env=env)
    if rc != 0:
        raise BuildError('harness (hook off) does not compile', out[-6000:])
    return os.path.join(HARNESS, 'target-nohook', 'release', 'tung-harness')

def ensure_all(profile='release'):
    with lock():
        coq_build()
        driver_build()
        return harness_build(profile)
